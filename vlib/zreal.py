"""Replay helpers: drive the REAL, unpatched zorg through its public surface on a real temp directory."""
import os
import shutil
import tempfile
from pathlib import Path


def db_url(z):
    return "sqlite:///%s/.zorg/zorg.db" % z


def create_db(z, update_whitelist=False):
    from zorg.domain.messages import commands
    from zorg.service import messagebus
    messagebus.handle(Path(z), db_url(z), [commands.CreateDBCommand(Path(z), update_whitelist)],
                      should_delete_existing_db=True)


def reindex(z, paths=()):
    from zorg.domain.messages import commands
    from zorg.service import messagebus
    messagebus.handle(Path(z), db_url(z), [commands.ReindexDBCommand(Path(z), paths=list(paths))])


def db_note_views(z):
    """every indexed note, as plain dicts, read from SQLite through the real models"""
    from sqlmodel import Session, select
    from zorg.storage.sql import _models as sql
    from zorg.storage.sql._engine import create_cached_engine
    out = []
    with Session(create_cached_engine(db_url(z))) as s:
        for r in s.exec(select(sql.Note)).all():
            out.append(dict(
                zid=r.zid, kind=(r.todo_status.value if r.todo_status else "-"), priority=r.todo_priority,
                body=r.body, create_date=r.create_date, modify_date=r.modify_date, line_no=r.line_no,
                areas=sorted(t.name for t in r.areas), contexts=sorted(t.name for t in r.contexts),
                people=sorted(t.name for t in r.people), projects=sorted(t.name for t in r.projects),
                links=sorted(t.name for t in r.links),
                properties={pl.prop.name: pl.value for pl in r.property_links}, page=r.page_path))
    return sorted(out, key=lambda v: (v["page"], v["line_no"]))


def compile_views(z, rel):
    from zorg.service.compiler import walk_zorg_page
    page = walk_zorg_page(Path(z), Path(z) / rel)
    out = []
    for n in page.notes:
        out.append(dict(
            zid=n.zid, kind=(n.todo_payload.status.value if n.todo_payload else "-"),
            priority=(n.todo_payload.priority if n.todo_payload else None), body=n.body,
            create_date=n.create_date, modify_date=n.modify_date, line_no=n.line_no,
            areas=sorted(n.areas), contexts=sorted(n.contexts), people=sorted(n.people),
            projects=sorted(n.projects), links=sorted(n.links), properties=dict(n.properties), page=str(rel)))
    return page, out


class TempZdir:
    def __init__(self, prefix="zreal"):
        self.prefix = prefix

    def __enter__(self):
        self.d = tempfile.mkdtemp(prefix=self.prefix)
        return Path(self.d)

    def __exit__(self, *a):
        shutil.rmtree(self.d, ignore_errors=True)
        return False


def create_db_subprocess(z, freeze="2024-05-10 10:00:00"):
    """`db create` in a fresh interpreter (the per-process engine cache does not survive deleting the DB file)"""
    import subprocess
    import sys
    code = ("import sys; sys.path.insert(0, %r)\n"
            "from freezegun import freeze_time\n"
            "from vlib import zreal\n"
            "with freeze_time(%r):\n"
            "    zreal.create_db(%r)\n") % (os.path.dirname(os.path.dirname(os.path.abspath(__file__))), freeze, str(z))
    p = subprocess.run([sys.executable, "-c", code], capture_output=True, text=True, timeout=300,
                       env=dict(os.environ))
    if p.returncode != 0:
        raise RuntimeError("db create subprocess failed: " + p.stderr[-800:])
