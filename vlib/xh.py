"""Run many CrossHair conditions in parallel (one process per condition) and collect verdicts."""
import concurrent.futures as cf
import json
import os
import subprocess
import sys
import time
from dataclasses import dataclass, field

HERE = os.path.dirname(os.path.abspath(__file__))
VERIF = os.path.dirname(HERE)
PY = os.path.join(VERIF, ".venv", "bin", "python")
WORKER = os.path.join(HERE, "xh_worker.py")
ZORG_SRC = os.environ.get("ZORG_SRC", "/repo/src")
CC_MAX = int(os.environ.get("VERIF_CC_MAX", "300"))         # engine cross-validation: concrete runs per confirmed condition
CC_REPLAYS = int(os.environ.get("VERIF_CC_REPLAYS", "2"))    # ... and of those, how many are also replayed on the real code
CC_BUDGET = float(os.environ.get("VERIF_CC_BUDGET", "60"))   # ... and seconds
NPROC = int(os.environ.get("VERIF_JOBS", str(os.cpu_count() or 8)))


@dataclass
class Cond:
    module: str                  # path of harness module
    name: str                    # function name
    timeout: float = 30.0        # per-condition CPU budget (s)
    path_timeout: float = 0.0    # 0 -> timeout/2
    twin: bool = False           # run in reachability-twin mode (XH_TWIN=1)
    env: dict = field(default_factory=dict)
    meta: dict = field(default_factory=dict)
    # engine cross-validation (concrete_worker.py) of a CONFIRMED condition whose arguments are all int/bool: None = on with
    # the default sample size, False = off, or {"ranges": [[lo,hi),..], "max": N}
    cc: object = None


def _env(extra=None, twin=False):
    env = dict(os.environ)
    env["PYTHONPATH"] = os.pathsep.join([ZORG_SRC, VERIF])
    env["PYTHONHASHSEED"] = "0"
    env["PYTHONDONTWRITEBYTECODE"] = "1"
    env.pop("XH_TWIN", None)
    env.pop("XH_NO_PATCH", None)
    if twin:
        env["XH_TWIN"] = "1"
    if extra:
        env.update({k: str(v) for k, v in extra.items()})
    return env


def run_one(c: Cond) -> dict:
    pt = c.path_timeout or max(2.0, c.timeout / 2.0)
    t0 = time.time()
    wall = c.timeout * 1.6 + 45
    res = {"name": c.name, "status": "error", "detail": "", "message": "", "call": None,
           "confirmed_paths": 0, "cpu_s": 0.0}
    try:
        p = subprocess.run([PY, WORKER, c.module, c.name, str(c.timeout), str(pt)],
                           env=_env(c.env, c.twin), capture_output=True, text=True, timeout=wall,
                           cwd=os.path.dirname(c.module))
        line = None
        for ln in p.stdout.splitlines():
            if ln.startswith("@@XH "):
                line = ln[5:]
        if line is None:
            res["detail"] = "worker produced no verdict (rc=%s)" % p.returncode
            res["message"] = (p.stderr or "")[-1200:]
        else:
            res.update(json.loads(line))
    except subprocess.TimeoutExpired:
        res["status"] = "inconclusive"
        res["detail"] = "wall timeout %.0fs" % wall
    if c.cc is not False and not c.twin and res["status"] == "confirmed" and CC_MAX > 0:
        spec = dict(c.cc or {})
        spec.setdefault("max", CC_MAX)
        spec.setdefault("budget_s", CC_BUDGET)
        spec.setdefault("replays", CC_REPLAYS)
        res["cc"] = concrete_sweep(c.module, c.name, spec, c.env, timeout=CC_BUDGET * 2 + 120)
    res["wall_s"] = round(time.time() - t0, 2)
    res["twin"] = c.twin
    res["meta"] = c.meta
    res["module"] = c.module
    return res


def run_all(conds, jobs=None, progress=True):
    jobs = jobs or NPROC
    only = os.environ.get("VERIF_ONLY")          # development aid: run the conditions whose name matches (never set by ./check users)
    if only:
        import re
        conds = [c for c in conds if re.search(only, c.name)]
    out = [None] * len(conds)
    t0 = time.time()
    with cf.ThreadPoolExecutor(max_workers=jobs) as ex:
        futs = {ex.submit(run_one, c): i for i, c in enumerate(conds)}
        done = 0
        for f in cf.as_completed(futs):
            i = futs[f]
            out[i] = f.result()
            done += 1
            if progress:
                r = out[i]
                sys.stderr.write("[xh %3d/%d %6.1fs] %-12s %s%s %s\n" % (
                    done, len(conds), time.time() - t0, r["status"], r["name"],
                    " (twin)" if r.get("twin") else "", (r.get("call") or r.get("detail") or "")[:110]))
                sys.stderr.flush()
    return out


def concrete_sweep(module, name, spec, env=None, timeout=400):
    """Engine cross-validation (vlib/concrete_worker.py): the harness function, untraced, on a finite argument space."""
    worker = os.path.join(os.path.dirname(os.path.abspath(__file__)), "concrete_worker.py")
    t0 = time.time()
    try:
        p = subprocess.run([PY, worker, module, name, json.dumps(spec)], env=_env(env), capture_output=True, text=True,
                           timeout=timeout, cwd=os.path.dirname(module))
    except subprocess.TimeoutExpired:
        return {"error": "wall timeout", "runs": 0, "bad": [], "n_bad": 0}
    for ln in p.stdout.splitlines():
        if ln.startswith("@@CC "):
            out = json.loads(ln[5:])
            out["wall_s"] = round(time.time() - t0, 2)
            return out
    return {"error": "no verdict (rc=%s): %s" % (p.returncode, (p.stderr or "")[-800:]), "runs": 0, "bad": [], "n_bad": 0}


def eval_in_harness(module, expr, env=None, timeout=300):
    """evaluate a Python expression inside a harness module imported the way the workers import it (stubs installed,
    zorg from $ZORG_SRC) and return its JSON value - for tables that only exist on the patched side"""
    code = ("import importlib.util, json, sys\n"
            "spec = importlib.util.spec_from_file_location('ev_harness', %r)\n"
            "m = importlib.util.module_from_spec(spec); sys.modules['ev_harness'] = m; spec.loader.exec_module(m)\n"
            "print('@@EV ' + json.dumps(eval(%r, m.__dict__)))\n") % (module, expr)
    p = subprocess.run([PY, "-c", code], env=_env(env), capture_output=True, text=True, timeout=timeout,
                       cwd=os.path.dirname(module))
    for ln in p.stdout.splitlines():
        if ln.startswith("@@EV "):
            return json.loads(ln[5:])
    raise RuntimeError("eval_in_harness(%s) failed: %s" % (expr, (p.stderr or "")[-800:]))


def parse_call(call: str, module_globals: dict):
    """'f(1, b="x")' -> (args, kwargs), evaluated in the harness module's namespace."""
    k = call.find("(")
    inner = call[k:]
    return eval("(lambda *a, **k: (a, k))" + inner, dict(module_globals))
