"""Engine cross-validation: run a harness function CONCRETELY (no tracing; same module, same stubs, same environment pins)
on the tuples of a finite argument space that satisfy its `pre:` lines, and report those for which it returns False/raises.

This is NOT the deciding step of any check (that is the solver's verdict over the symbolic arguments); it guards the
symbolic engine itself: crosshair-tool 0.0.110 models some built-ins differently from CPython (found: `dict | crosshair_map`
lets the LEFT operand win), and a harness function that is False concretely while CrossHair confirms it is exactly how
such a modelling defect shows.  When the space is larger than `max` a seeded sample of it is run.
The argument space: `ranges` when given, else the module's CC[<function>], else inferred - every int argument ranges over
[-13, 100), narrowed by the conjuncts of the `pre:` lines that mention only that argument; the remaining conjuncts filter
the product.  (Functions with non-int/bool arguments are not swept.)
usage: concrete_worker.py <module.py> <function> <json {"ranges": [[lo,hi),...]?, "max": N, "seed": s}>"""
import ast
import importlib.util
import inspect
import json
import random
import sys
import time


# candidate texts of a `str` argument: every text of length <= 2 over an alphabet that holds the characters the harnesses'
# classes distinguish (kind letters, P, digits, '_', ':', '#', '-', 'z'), plus longer words that sit on class boundaries
_ALPHA = "abhopstxzPZ019_:#-"
STR_CANDIDATES = ([""] + list(_ALPHA) + [a + b for a in _ALPHA for b in _ALPHA] + list("2345678ijklOIyY.,;()[]{}*+@%!?/\\'\" <>=~^$&|")
                  + ["http", "https", "htt", "P10", "P1a", "1:30", "12:0", "1:3", "Zz9", "a_b", "o2x", "x__", "0000", "240510", "2405",
                     "abc", "zzz", "a1b2", "o_o", "xx", "oo", "ab:c", "9z9", "_a", "a__b", "zo", ".zo", "a.zo", "a/b", "2024-01-02",
                     "2024-02-30", "0000-00-00", "----------", "1999-12-31", "240101#01", "000000", "999999", "241301", "240229"])


def main():
    mod_path, fname, spec_ = sys.argv[1], sys.argv[2], json.loads(sys.argv[3])
    ranges, cap, seed = spec_.get("ranges"), int(spec_.get("max", 300)), int(spec_.get("seed", 0))
    budget = float(spec_.get("budget_s", 120))
    nrep = max(1, int(spec_.get("replays", 1)))
    spec = importlib.util.spec_from_file_location("cc_harness", mod_path)
    m = importlib.util.module_from_spec(spec)
    sys.modules["cc_harness"] = m
    spec.loader.exec_module(m)
    fn = getattr(m, fname)
    sig = inspect.signature(fn)
    names = list(sig.parameters)
    kinds = [sig.parameters[n].annotation for n in names]
    pres = [ln.strip()[4:].strip() for ln in (fn.__doc__ or "").splitlines() if ln.strip().startswith("pre:")]
    if any(k not in (int, bool, str) for k in kinds):
        print("@@CC " + json.dumps({"error": "not swept: arguments other than int/bool/str", "runs": 0, "bad": [], "n_bad": 0}))
        return
    if ranges is None:
        ranges = getattr(m, "CC", {}).get(fname)
    if ranges is not None:
        assert len(ranges) == len(names), (names, ranges)
        doms = [list(range(lo, hi)) for lo, hi in ranges]
    else:
        # unary conjuncts of the preconditions narrow each argument's domain
        conj = []
        for p in pres:
            t = ast.parse(p, mode="eval").body
            conj.extend(t.values if isinstance(t, ast.BoolOp) and isinstance(t.op, ast.And) else [t])
        unary = {n: [] for n in names}
        for t in conj:
            used = {x.id for x in ast.walk(t) if isinstance(x, ast.Name)} & set(names)
            if len(used) == 1:
                unary[used.pop()].append(compile(ast.Expression(t), "<pre>", "eval"))
        doms = []
        for n, kind in zip(names, kinds):
            base = [0, 1] if kind is bool else (STR_CANDIDATES if kind is str else list(range(-13, 100)))
            ok = []
            for v in base:
                try:
                    if all(eval(c, m.__dict__, {n: (bool(v) if kind is bool else v)}) for c in unary[n]):
                        ok.append(v)
                except Exception:  # noqa
                    pass
            doms.append(ok)
    sizes = [len(d) for d in doms]
    total = 1
    for s in sizes:
        total *= s
    if total == 0:
        print("@@CC " + json.dumps({"error": "empty argument space", "runs": 0, "bad": [], "n_bad": 0}))
        return

    def decode(k):
        out = []
        for d, s, kind in zip(doms, sizes, kinds):
            v = d[k % s]
            k //= s
            out.append(bool(v) if kind is bool else v)
        return tuple(out)

    def admissible(args):
        env = dict(zip(names, args))
        try:
            return all(eval(p, m.__dict__, env) for p in pres)
        except Exception:  # noqa
            return False

    rnd = random.Random(seed)
    order = range(total) if total <= 20 * cap else (rnd.randrange(total) for _ in range(40 * cap))
    cands, seen = [], set()
    for k in order:
        if k in seen:
            continue
        seen.add(k)
        a = decode(k)
        if admissible(a):
            cands.append(a)
    whole = total <= 20 * cap and len(cands) <= cap
    if len(cands) > cap:
        cands = rnd.sample(cands, cap)
    bad, n, t0 = [], 0, time.time()
    for args in cands:
        if time.time() - t0 > budget:
            whole = False
            break
        n += 1
        try:
            ok = fn(*args)
            why = ""
        except Exception as e:  # noqa
            ok, why = False, "%s: %s" % (type(e).__name__, e)
        if not ok:
            bad.append({"args": list(args), "why": why[:200]})
    print("@@CC " + json.dumps({"runs": n, "bad": bad[:20], "n_bad": len(bad), "space": total, "whole_space": whole,
                                 "first": list(cands[len(cands) // 2]) if cands else None,
                                 "sample": [list(cands[(2 * i + 1) * len(cands) // (2 * nrep)]) for i in range(nrep)] if cands else []}))


if __name__ == "__main__":
    main()
