"""Engine cross-validation: run a harness function CONCRETELY (no tracing, same patched module, same stubs) on every
tuple of a small finite argument space and report the tuples for which it returns False / raises.

This is NOT the deciding step of any check (that is the solver's verdict over the symbolic arguments); it guards the
symbolic engine itself: crosshair-tool 0.0.110 models some built-ins (found: `dict | crosshair_map`) differently from
CPython, and a harness function that is False concretely while CrossHair confirms it is exactly how such a modelling
defect shows.  usage: concrete_worker.py <module.py> <function> <json list of [lo,hi) ranges>"""
import importlib.util
import itertools
import json
import sys


def main():
    mod_path, fname, ranges = sys.argv[1], sys.argv[2], json.loads(sys.argv[3])
    spec = importlib.util.spec_from_file_location("cc_harness", mod_path)
    m = importlib.util.module_from_spec(spec)
    sys.modules["cc_harness"] = m
    spec.loader.exec_module(m)
    fn = getattr(m, fname)
    bad, n = [], 0
    for args in itertools.product(*[range(lo, hi) for lo, hi in ranges]):
        n += 1
        try:
            ok = fn(*args)
            why = ""
        except Exception as e:  # noqa
            ok, why = False, "%s: %s" % (type(e).__name__, e)
        if not ok:
            bad.append({"args": list(args), "why": why})
    print("@@CC " + json.dumps({"runs": n, "bad": bad[:50], "n_bad": len(bad)}))


if __name__ == "__main__":
    main()
