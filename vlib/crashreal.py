"""C13, family `converge_real`: the REAL zorg - SQLSession, SQLRepo (remove_file_by_name with its partial commits,
PageConverter), SQLite, the ANTLR compiler, ZIDManager, the message bus - run IN THIS PROCESS on a real temporary
directory, killed at a chosen boundary between external effects by an exception that nothing in zorg catches.

Effects counted (in the order they happen): Path.write_text, Path.open('w'), Path.replace, Path.unlink, Session.commit.
`Crash` is raised immediately BEFORE effect k; with torn=True and effect k a text write, after half of the text (for a
truncating open: right after it).  Raising through `with session:` makes the unit of work roll back and close, which leaves
SQLite exactly where a killed process leaves it (everything committed so far, nothing else); all in-memory state of the
run (queued events, the ZID manager, the repo) is dropped because the re-run goes through messagebus.handle again.
Nothing in zorg is patched: the counters wrap pathlib / sqlalchemy methods and are removed after each run.
"""
import contextlib
import gc
import hashlib
import io
import json
import logging
import pathlib
import shutil
import tempfile

FREEZE = "2024-05-10 10:00:00"


class Crash(BaseException):
    pass


class _Counter:
    def __init__(self, k, torn):
        self.n, self.k, self.torn, self.log = 0, k, torn, []

    def boundary(self, kind):
        """True: die IN this effect (torn); raises Crash: die before it; False: go on"""
        if self.n == self.k:
            if self.torn and kind in ("write_text", "open_w"):
                return True
            raise Crash(kind)
        self.n += 1
        self.log.append(kind)
        return False


@contextlib.contextmanager
def _effects(counter):
    from sqlalchemy.orm import Session
    P = pathlib.Path
    real = (P.write_text, P.open, P.replace, P.unlink, Session.commit)

    def write_text(self, data, *a, **kw):
        if counter.boundary("write_text"):
            real[0](self, data[:len(data) // 2], *a, **kw)
            raise Crash("torn write_text")
        return real[0](self, data, *a, **kw)

    def open_(self, mode="r", *a, **kw):
        if "w" in mode and counter.boundary("open_w"):
            real[1](self, mode, *a, **kw).close()
            raise Crash("torn open")
        return real[1](self, mode, *a, **kw)

    def replace(self, target):
        counter.boundary("replace")
        return real[2](self, target)

    def unlink(self, *a, **kw):
        counter.boundary("unlink")
        return real[3](self, *a, **kw)

    def commit(self, *a, **kw):
        counter.boundary("commit")
        return real[4](self, *a, **kw)

    P.write_text, P.open, P.replace, P.unlink, Session.commit = write_text, open_, replace, unlink, commit
    try:
        yield
    finally:
        P.write_text, P.open, P.replace, P.unlink, Session.commit = real


def run(z, cmd, rels, k=-1, torn=False):
    """one 'process': (crashed?, effect log, error text or None)"""
    from freezegun import freeze_time
    from zorg.domain.messages import commands
    from zorg.service import messagebus
    z = pathlib.Path(z)
    url = "sqlite:///%s/.zorg/zorg.db" % z
    _new_process()
    counter = _Counter(k, torn)
    sink = io.StringIO()
    logging.disable(logging.CRITICAL)
    try:
        with freeze_time(FREEZE), contextlib.redirect_stdout(sink), contextlib.redirect_stderr(sink), _effects(counter):
            if cmd == "create":
                messagebus.handle(z, url, [commands.CreateDBCommand(z, False)], should_delete_existing_db=True)
            else:
                messagebus.handle(z, url, [commands.ReindexDBCommand(z, paths=[z / r for r in rels])])
    except Crash:
        return True, counter.log, None
    except Exception as e:  # noqa
        return False, counter.log, "%s: %s" % (type(e).__name__, e)
    finally:
        logging.disable(logging.NOTSET)
    return False, counter.log, None


def sha(text):
    return hashlib.sha256(text.encode()).hexdigest()


def files(z):
    z = pathlib.Path(z)
    return {str(p.relative_to(z)): p.read_text() for p in z.rglob("*.zo")}


def views(z):
    from vlib import zreal
    return [(v["page"], v["line_no"], v["zid"], v["body"], tuple(v["areas"])) for v in zreal.db_note_views(z)]


def put_state(z, names, texts, states, file_states, index_states, hash_states):
    """index state first (db create of the INDEX texts), then the files, the hash map and an empty ZID counter"""
    z = pathlib.Path(z)
    for j, (name, (f, i, h)) in enumerate(zip(names, states)):
        if index_states[i]:
            (z / name).parent.mkdir(parents=True, exist_ok=True)
            (z / name).write_text(texts[j][index_states[i]])
    crashed, _log, err = run(z, "create", [])
    assert not crashed and err is None, err
    hm = {}
    for j, (name, (f, i, h)) in enumerate(zip(names, states)):
        p = z / name
        if not file_states[f]:
            if p.exists():
                p.unlink()
        else:
            p.parent.mkdir(parents=True, exist_ok=True)
            p.write_text(texts[j][file_states[f]])
        if hash_states[h]:
            hm[name] = sha(texts[j][hash_states[h]])
    (z / ".zorg" / "file_hash.json").write_text(json.dumps(hm))
    (z / ".zorg" / "next_ids.json").write_text("{}")


def judge(w, originals, cmd, rels, strip_zids, uninterrupted=None, mask=None):
    """'' or what is wrong in directory w after the re-run (compared with a fresh `db create` on a copy and, if given, with
    the files an uninterrupted run leaves)"""
    w = pathlib.Path(w)
    fl, idx = files(w), views(w)
    if uninterrupted is not None:
        for n in (sorted(set(fl) | set(uninterrupted)) if (cmd == "create" or not rels) else list(rels)):
            a, b = fl.get(n), uninterrupted.get(n)
            if (a is None) != (b is None) or (a is not None and mask(a) != mask(b)):
                return "page %s differs from what an uninterrupted run leaves: %r vs %r" % (n, a, b)
    f = pathlib.Path(tempfile.mkdtemp(prefix="c13f"))
    try:
        shutil.copytree(w, f, dirs_exist_ok=True)
        crashed, _log, err = run(f, "create", [])
        if crashed or err:
            return "a fresh `db create` on a copy of the final files fails: %s" % err
        fresh, fresh_files = views(f), files(f)
    finally:
        shutil.rmtree(f, ignore_errors=True)
    scope = sorted(fl) if (cmd == "create" or not rels) else list(rels)
    for n in scope:
        if fl.get(n) != fresh_files.get(n):
            return "page %s still waits for a write-back: file %r, after a fresh `db create` %r" % (n, fl.get(n), fresh_files.get(n))
        if [v for v in idx if v[0] == n] != [v for v in fresh if v[0] == n]:
            return "index and file disagree for %s: index %r, fresh index of the same files %r" % (
                n, [v[2:] for v in idx if v[0] == n], [v[2:] for v in fresh if v[0] == n])
    if cmd == "create" or not rels:
        if sorted({v[0] for v in idx}) != sorted({v[0] for v in fresh}):
            return "indexed pages %r, a fresh index has %r" % (sorted({v[0] for v in idx}), sorted({v[0] for v in fresh}))
        try:
            hm = json.loads((w / ".zorg" / "file_hash.json").read_text())
        except ValueError:
            return "the hash map is not valid JSON after the re-run"
        if hm != {n: sha(t) for n, t in fl.items()}:
            return "the hash map does not describe the files"
    zids = [v[2] for v in idx if v[2]]
    if len(zids) != len(set(zids)):
        return "a ZID is assigned to two notes: %r" % (zids,)
    for n, t in originals.items():
        if n not in fl:
            return "page %s vanished" % n
        if strip_zids(fl[n]) != strip_zids(t):
            return "user text of %s changed: %r -> %r" % (n, t, fl[n])
    return ""


_UNINTERRUPTED = {}


def uninterrupted_files(names, texts, states, tables, cmd, rels):
    """the pages an uninterrupted real run leaves from this state (cached: the schedules of one state come in a row)"""
    key = (tuple(states), cmd, tuple(rels))
    if key not in _UNINTERRUPTED:
        _UNINTERRUPTED.clear()
        base = pathlib.Path(tempfile.mkdtemp(prefix="c13u"))
        try:
            z = base / "z"
            z.mkdir()
            put_state(z, names, texts, states, *tables)
            crashed, _log, err = run(z, cmd, rels)
            assert not crashed and err is None, err
            _UNINTERRUPTED[key] = files(z)
        finally:
            shutil.rmtree(base, ignore_errors=True)
    return _UNINTERRUPTED[key]


def schedule(names, texts, states, tables, cmd, rels, k, torn, strip_zids, mask=None):
    """the whole obligation for one schedule on a fresh real directory: '' or what is wrong"""
    base = pathlib.Path(tempfile.mkdtemp(prefix="c13r"))
    try:
        unint = uninterrupted_files(names, texts, states, tables, cmd, rels) if mask is not None else None
        z = base / "z"
        z.mkdir()
        put_state(z, names, texts, states, *tables)
        originals = files(z)
        crashed, log, err = run(z, cmd, rels, k, torn)
        if err is not None:
            return "the run itself fails (before any crash): " + err
        crashed2, _log2, err2 = run(z, cmd, rels)
        if err2 is not None:
            return "the re-run fails: " + err2
        return judge(z, originals, cmd, rels, strip_zids, unint, mask)
    finally:
        shutil.rmtree(base, ignore_errors=True)
        _cleanup()


def _new_process():
    """a new process has no SQLAlchemy engine yet: drop the cached ones (and their pooled connections - `db create`
    deletes the database file, which a connection of an earlier 'process' would still hold open)"""
    from zorg.storage.sql._engine import create_cached_engine
    create_cached_engine.cache_clear()
    gc.collect()


def _cleanup():
    _new_process()


def effect_log(names, texts, states, tables, cmd, rels):
    """effect kinds of the uninterrupted real run from this state"""
    base = pathlib.Path(tempfile.mkdtemp(prefix="c13t"))
    try:
        z = base / "z"
        z.mkdir()
        put_state(z, names, texts, states, *tables)
        crashed, log, err = run(z, cmd, rels)
        assert not crashed and err is None, err
        return log
    finally:
        shutil.rmtree(base, ignore_errors=True)
        _cleanup()
