"""Replay helper for C13: run the REAL, unpatched `db reindex` / `db create` in this process and kill the process
(os._exit) at a chosen boundary between its external effects.

External effects counted (in the order they happen): Path.write_text, Path.open(.. 'w' ..), Path.unlink,
sqlalchemy Session.commit.  The process dies immediately BEFORE effect number K; with TORN=1 and effect K being a file
write, after half of the text (write_text) or right after the truncating open (open 'w').  K = -1: no crash; the number
of effects is printed as `EFFECTS <n>` on stderr.  Nothing in zorg is modified: the counters wrap pathlib / sqlalchemy
methods in this interpreter only.

usage: crashrun.py <zdir> <K> <TORN 0|1> <reindex|create> <freeze 'YYYY-MM-DD HH:MM:SS'> [relative paths...]
exit: 0 completed, 77 killed at the crash point, anything else: the command failed.
"""
import os
import pathlib
import sys


def main():
    zdir, k, torn, cmd, freeze = sys.argv[1], int(sys.argv[2]), sys.argv[3] == "1", sys.argv[4], sys.argv[5]
    rels = sys.argv[6:]
    state = {"n": 0, "log": []}

    def boundary(kind):
        """returns True if the process is to die IN this effect (torn), exits if it is to die before it"""
        if state["n"] == k:
            if torn and kind in ("write_text", "open_w"):
                return True
            sys.stderr.write("CRASH before effect %d (%s)\n" % (k, kind))
            sys.stderr.flush()
            os._exit(77)
        state["n"] += 1
        state["log"].append(kind)
        return False

    P = pathlib.Path
    real_write_text, real_open, real_unlink = P.write_text, P.open, P.unlink

    def write_text(self, data, *a, **kw):
        if boundary("write_text"):
            real_write_text(self, data[:len(data) // 2], *a, **kw)
            sys.stderr.write("CRASH in effect %d (torn write_text %s)\n" % (k, self))
            os._exit(77)
        return real_write_text(self, data, *a, **kw)

    def open_(self, mode="r", *a, **kw):
        if "w" in mode:
            if boundary("open_w"):
                real_open(self, mode, *a, **kw).close()      # truncated, nothing written
                sys.stderr.write("CRASH in effect %d (torn open %s)\n" % (k, self))
                os._exit(77)
        return real_open(self, mode, *a, **kw)

    def unlink(self, *a, **kw):
        boundary("unlink")
        return real_unlink(self, *a, **kw)

    P.write_text, P.open, P.unlink = write_text, open_, unlink
    from sqlalchemy.orm import Session
    real_commit = Session.commit

    def commit(self, *a, **kw):
        boundary("commit")
        return real_commit(self, *a, **kw)

    Session.commit = commit

    from freezegun import freeze_time
    with freeze_time(freeze):
        from zorg.domain.messages import commands
        from zorg.service import messagebus
        z = pathlib.Path(zdir)
        url = "sqlite:///%s/.zorg/zorg.db" % z
        import contextlib
        import io
        sink = io.StringIO()
        with contextlib.redirect_stdout(sink):
            if cmd == "create":
                messagebus.handle(z, url, [commands.CreateDBCommand(z, False)], should_delete_existing_db=True)
            else:
                messagebus.handle(z, url, [commands.ReindexDBCommand(z, paths=[z / r for r in rels])])
    sys.stderr.write("EFFECTS %d %s\n" % (state["n"], " ".join(state["log"])))
    sys.exit(0)


if __name__ == "__main__":
    main()
