"""Runs a driver module's main() and turns an escaping exception into exit status 2 (harness error): exit status 1 is
reserved for a VIOLATION that was replayed on the real code.   usage: python -m vlib.launch harness.cNN <tier> <seed>"""
import importlib
import sys
import traceback


def main():
    name = sys.argv[1]
    sys.argv = [name] + sys.argv[2:]
    try:
        importlib.import_module(name).main()
    except SystemExit:
        raise
    except BaseException:  # noqa
        traceback.print_exc()
        sys.stderr.write("HARNESS-ERROR: the driver %s crashed (nothing decided)\n" % name)
        sys.exit(2)


if __name__ == "__main__":
    main()
