"""One CrossHair condition per process.

usage: xh_worker.py <harness.py> <function> <per_condition_timeout> <per_path_timeout>

Loads the harness module the way `crosshair check` does (pure-python imports preferred), analyses ONE
function's PEP316 contract with the CrossHair API and prints a single JSON line:

  {"name", "status": confirmed|refuted|inconclusive|error, "detail", "message", "call",
   "confirmed_paths", "body_calls", "cpu_s"}

`status` is derived from CrossHair's own message states only:
  CONFIRMED                      -> confirmed   (all paths exhausted, postcondition held on each)
  POST_FAIL / EXEC_ERR / POST_ERR-> refuted     (a concrete counterexample call is in `call`)
  CANNOT_CONFIRM / PRE_UNSAT ... -> inconclusive
No audit wall is engaged (the harnesses only touch in-memory stubs), so interpreter-exit clean-up of
zorg's class-level TemporaryDirectory cannot disturb the verdict.
"""
import importlib.util
import json
import os
import sys
import time
import traceback


def main() -> int:
    path, fname, cond_t, path_t = sys.argv[1], sys.argv[2], float(sys.argv[3]), float(sys.argv[4])
    out = {"name": fname, "status": "error", "detail": "", "message": "", "call": None,
           "confirmed_paths": 0, "body_calls": 0, "cpu_s": 0.0}
    t0 = time.process_time()
    try:
        from crosshair import core_and_libs  # noqa: F401  (registers library models)
        from crosshair import core
        from crosshair.options import AnalysisKind, AnalysisOptionSet
        from crosshair.statespace import MessageType
        from crosshair.util import add_to_pypath
        try:
            from crosshair.main import prefer_pure_python_imports
        except Exception:  # pragma: no cover
            from contextlib import nullcontext as prefer_pure_python_imports

        stats = {"confirmed_paths": 0}
        orig = core.analyze_calltree

        def wrapped(options, conditions):
            res = orig(options, conditions)
            stats["confirmed_paths"] += getattr(res, "num_confirmed_paths", 0)
            return res

        core.analyze_calltree = wrapped

        moddir = os.path.dirname(os.path.abspath(path))
        with add_to_pypath(moddir), prefer_pure_python_imports():
            spec = importlib.util.spec_from_file_location(
                os.path.splitext(os.path.basename(path))[0], path)
            mod = importlib.util.module_from_spec(spec)
            sys.modules[spec.name] = mod
            spec.loader.exec_module(mod)
            fn = getattr(mod, fname)
            options = AnalysisOptionSet(
                analysis_kind=[AnalysisKind.PEP316],
                per_condition_timeout=cond_t,
                per_path_timeout=path_t,
                report_all=True,
                max_uninteresting_iterations=sys.maxsize,
            )
            checkables = core.analyze_function(fn, options)
            if not checkables:
                out["detail"] = "no checkable contract found"
            msgs = core.run_checkables(checkables)
        worst = None
        for m in msgs:
            if worst is None or m.state > worst.state:
                worst = m
        if worst is not None:
            out["message"] = worst.message
            st = worst.state
            if st == MessageType.CONFIRMED:
                out["status"] = "confirmed"
            elif st in (MessageType.POST_FAIL, MessageType.EXEC_ERR, MessageType.POST_ERR):
                out["status"] = "refuted"
                txt = worst.message
                k = txt.find("when calling ")
                if k >= 0:
                    call = txt[k + len("when calling "):]
                    j = call.rfind(" (which returns")
                    if j >= 0:
                        call = call[:j]
                    out["call"] = call
            elif st in (MessageType.SYNTAX_ERR, MessageType.IMPORT_ERR):
                out["status"] = "error"
            else:
                out["status"] = "inconclusive"
            out["detail"] = st.name
        out["confirmed_paths"] = stats["confirmed_paths"]
        out["body_calls"] = int(getattr(mod, "_BODY_CALLS", [0])[0]) if "mod" in dir() else 0
    except BaseException as e:  # noqa
        out["status"] = "error"
        out["detail"] = "%s: %s" % (type(e).__name__, e)
        out["message"] = traceback.format_exc()[-1500:]
    out["cpu_s"] = round(time.process_time() - t0, 2)
    sys.stdout.write("@@XH " + json.dumps(out) + "\n")
    sys.stdout.flush()
    os._exit(0)


if __name__ == "__main__":
    main()
