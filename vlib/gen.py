"""Generates CrossHair harness modules (one `def` with a PEP316 contract per skeleton) into a fresh
directory; CrossHair needs real source lines for its contracts."""
import os
import tempfile


def gen_dir():
    base = os.path.join(os.path.dirname(os.path.dirname(os.path.abspath(__file__))), ".gen")
    os.makedirs(base, exist_ok=True)
    return tempfile.mkdtemp(prefix="g", dir=base)


def write_module(path, header, functions):
    """functions: list of (name, [(argname, type)], [pre lines], body lines)"""
    out = [header, ""]
    for name, args, pres, body in functions:
        sig = ", ".join("%s: %s" % (a, t) for a, t in args)
        out.append("def %s(%s) -> bool:" % (name, sig))
        out.append('    """')
        for p in pres:
            out.append("    pre: " + p)
        out.append("    post: _")
        out.append('    """')
        out.extend("    " + b for b in body)
        out.append("")
        out.append("")
    with open(path, "w") as f:
        f.write("\n".join(out))
    return path
