"""Harness extras: the environment stubs every CrossHair harness shares (DESIGN.md §2.2).

Each stub is part of the claim of the check that uses it and is listed in that check's evidence.
"""
import datetime as dt
import os
import sys

TWIN = os.environ.get("XH_TWIN") == "1"
# XH_NO_PATCH=1: the module is being imported by a DRIVER process for its tables and oracle only; nothing in
# zorg may be patched there, because the same process replays counterexamples on the real code.
PATCH = os.environ.get("XH_NO_PATCH") != "1"


def put(module, name, value):
    """module.name = value, unless patching is disabled (driver process)"""
    if PATCH:
        setattr(module, name, value)
_BODY_CALLS = [0]


def V(x):
    """Assertion site.  In twin (reachability) mode every reached assertion site is False, so the
    twin run must come back refuted; otherwise the harness never reaches its assertion (vacuity)."""
    if TWIN:
        return False
    return True if x else False


# ----------------------------------------------------------------------------- CrossHair work-around
def _fix_crosshair_map_ror():
    """crosshair-tool 0.0.110, simplestructs.MapBase: `__ror__ = __or__`, i.e. `real_dict | crosshair_map` is computed as
    `crosshair_map | real_dict` - the LEFT operand's values win, the opposite of dict union.  (`dict(x)` under tracing yields
    such a map.)  Found when a seeded change that swapped the operands of a dict union went unnoticed (C06-3).  Install the
    correct reversed union."""
    try:
        from collections.abc import Mapping
        from crosshair import simplestructs
    except Exception:  # pragma: no cover
        return

    def __ror__(self, other):
        if not isinstance(other, Mapping):
            return NotImplemented
        union_map = self.copy()
        union_map.clear()
        union_map.update(other)
        union_map.update(self)
        return union_map
    simplestructs.MapBase.__ror__ = __ror__


_fix_crosshair_map_ror()


# ----------------------------------------------------------------------------- loggers
class NullLogger:
    """logrus.Logger replacement: logging reads time.time(), which CrossHair models as an unbounded
    symbolic float, so any logging path could never be exhausted."""

    def _noop(self, *a, **k):
        return None

    debug = info = warning = warn = error = exception = critical = trace = _noop

    def bind(self, *a, **k):
        return self


def stub_loggers():
    n = 0
    if not PATCH:
        return 0
    for name, mod in list(sys.modules.items()):
        if name.startswith("zorg") and mod is not None and hasattr(mod, "_LOGGER"):
            setattr(mod, "_LOGGER", NullLogger())
            n += 1
    return n


# ----------------------------------------------------------------------------- strptime
_REAL_STRPTIME = dt.datetime.strptime


def strptime_model(s, fmt):
    """Pure-Python model of datetime.strptime for the two formats zorg uses.

    %Y%m%d   : exactly 8 digits  (the C implementation also accepts shorter month/day fields when
               the string is shorter; zorg only calls it with '20'+6 digits or regex-checked 8 digits)
    %Y-%m-%d : d{4}-d{1,2}-d{1,2}; zorg only passes DATE tokens (d{4}-dd-dd)
    Anything else -> ValueError, like the real function.  Validated against the real strptime in
    vlib/selfcheck.py and on every replay.
    """
    if fmt == "%Y%m%d":
        if len(s) != 8 or not all("0" <= ch <= "9" for ch in s):
            raise ValueError("time data %r does not match format %r" % (s, fmt))
        y, m, d = _int(s[0:4]), _int(s[4:6]), _int(s[6:8])
    elif fmt == "%Y-%m-%d":
        if (len(s) != 10 or s[4] != "-" or s[7] != "-"
                or not all("0" <= ch <= "9" for ch in (s[0:4] + s[5:7] + s[8:10]))):
            raise ValueError("time data %r does not match format %r" % (s, fmt))
        y, m, d = _int(s[0:4]), _int(s[5:7]), _int(s[8:10])
    else:
        return _REAL_STRPTIME(s, fmt)
    if y < 1:
        raise ValueError("year out of range")
    return dt.datetime(y, m, d)


def _int(digits):
    n = 0
    for ch in digits:
        n = n * 10 + (ord(ch) - 48)
    return n


_STRPTIME_INSTALLED = [False]


def install_strptime_model():
    import crosshair
    if _STRPTIME_INSTALLED[0] or not PATCH:
        return
    _STRPTIME_INSTALLED[0] = True
    crosshair.register_patch(dt.datetime.strptime, strptime_model)


# ----------------------------------------------------------------------------- clock
class FixedDate(dt.date):
    """dt.date whose today() is harness-controlled: FixedDate.TODAY."""
    TODAY = dt.date(2024, 5, 10)

    @classmethod
    def today(cls):
        return cls.TODAY


class FixedDateTime(dt.datetime):
    """dt.datetime whose now() is harness-controlled.  NOW is the naive LOCAL wall-clock time and
    UTC_OFFSET_H the local zone's offset from UTC in hours: now() returns NOW, now(tz) returns the
    same instant expressed in tz (so code that asks for UTC gets a different calendar day whenever
    local date != UTC date, exactly like the real clock)."""
    NOW = dt.datetime(2024, 5, 10, 12, 0, 0)
    UTC_OFFSET_H = 0

    @classmethod
    def now(cls, tz=None):
        if tz is None:
            return cls.NOW
        # the same instant on tz's wall clock (returned naive: callers only format / subtract days)
        tz_hours = int(tz.utcoffset(None).total_seconds() // 3600)
        return cls.NOW - dt.timedelta(hours=cls.UTC_OFFSET_H) + dt.timedelta(hours=tz_hours)

    @classmethod
    def strptime(cls, s, fmt):
        # modules whose `dt` is the clock shim reach strptime through this class, not through the
        # patched datetime.datetime.strptime: route to the same model
        return strptime_model(s, fmt)


class _DtShim:
    """Stands in for the `dt` (datetime) module object inside one zorg module."""

    def __init__(self, real):
        self._real = real
        self.date = FixedDate
        self.datetime = FixedDateTime

    def __getattr__(self, name):
        return getattr(self._real, name)


def patch_clock(module):
    """Replace module.dt by a shim whose date.today()/datetime.now() are harness-controlled."""
    if PATCH:
        module.dt = _DtShim(dt)


# ----------------------------------------------------------------------------- in-memory FS
class Crash(BaseException):
    """the process is killed (C13): not an Exception, so no `except Exception` in the code under test swallows it"""


# FS_HOOK[0](path, data) -> (data to store, crash afterwards?) is consulted before every write to a FakeFS (C13's crash
# points); it may raise Crash itself (killed BEFORE the write) or hand back torn data and ask for the crash after it
FS_HOOK = [None]


def _fs_write(fs, path, data, atomic=False):
    hook = FS_HOOK[0]
    crash = False
    if hook is not None:
        new, crash = hook(path, data)
        if atomic and crash:
            raise Crash(path)          # an atomic replacement cannot be torn: killed before it
        data = new
    fs.files[path] = data
    fs.writes.append((path, data))
    if crash:
        raise Crash(path)


class FakeFS:
    def __init__(self, files=None):
        self.files = dict(files or {})
        self.dirs = set()
        self.writes = []   # (path, content) in order
        self.renames = []


class FakePath:
    """Minimal pathlib.Path stand-in over a FakeFS (string paths, '/' separated)."""

    def __init__(self, p, fs):
        self._p = p if isinstance(p, str) else str(p)
        self._fs = fs

    # -- identity
    def __str__(self):
        return self._p

    def __repr__(self):
        return "FakePath(%r)" % (self._p,)

    def __fspath__(self):
        return self._p

    def __eq__(self, o):
        return isinstance(o, FakePath) and o._p == self._p

    def __hash__(self):
        return hash(self._p)

    def __lt__(self, o):
        return self._p < o._p

    def __truediv__(self, o):
        o = str(o)
        if o.startswith("/"):
            return FakePath(o, self._fs)
        return FakePath(self._p.rstrip("/") + "/" + o, self._fs)

    @property
    def name(self):
        return self._p.rsplit("/", 1)[-1]

    @property
    def suffix(self):
        n = self.name
        k = n.rfind(".")
        return n[k:] if k > 0 else ""

    @property
    def stem(self):
        n = self.name
        k = n.rfind(".")
        return n[:k] if k > 0 else n

    @property
    def suffixes(self):
        n = self.name.lstrip(".")
        return ["." + x for x in n.split(".")[1:]]

    @property
    def parts(self):
        return tuple((["/"] if self._p.startswith("/") else []) + [x for x in self._p.split("/") if x])

    def with_suffix(self, suffix):
        return self.with_name(self.stem + suffix)

    def with_stem(self, stem):
        return self.with_name(stem + self.suffix)

    def joinpath(self, *others):
        p = self
        for o in others:
            p = p / o
        return p

    def as_posix(self):
        return self._p

    def resolve(self, *a, **k):
        return self

    def absolute(self):
        return self

    def relative_to(self, other):
        o = str(other).rstrip("/") + "/"
        if not self._p.startswith(o):
            raise ValueError("%r is not in the subpath of %r" % (self._p, str(other)))
        return FakePath(self._p[len(o):], self._fs)

    def is_file(self):
        return self._p in self._fs.files

    def is_dir(self):
        return self._p in self._fs.dirs or any(f.startswith(self._p.rstrip("/") + "/") for f in self._fs.files)

    @property
    def parent(self):
        if "/" not in self._p:
            return FakePath(".", self._fs)
        return FakePath(self._p.rsplit("/", 1)[0] or "/", self._fs)

    @property
    def parents(self):
        out = []
        p = self
        while "/" in p._p and p._p != "/":
            p = p.parent
            out.append(p)
        return out

    def is_absolute(self):
        return self._p.startswith("/")

    # -- I/O
    def exists(self):
        return self._p in self._fs.files or self._p in self._fs.dirs

    def read_text(self, *a, **k):
        if self._p not in self._fs.files:
            raise FileNotFoundError(self._p)
        return self._fs.files[self._p]

    def read_bytes(self):
        return self.read_text()

    def write_text(self, data, *a, **k):
        _fs_write(self._fs, self._p, data)
        return len(data) if isinstance(data, str) else 0

    def touch(self, *a, **k):
        if self._p not in self._fs.files:
            self._fs.files[self._p] = ""

    def mkdir(self, *a, **k):
        self._fs.dirs.add(self._p)

    def unlink(self, *a, **k):
        del self._fs.files[self._p]

    def with_name(self, name):
        if "/" not in self._p:
            return FakePath(name, self._fs)
        return FakePath(self._p.rsplit("/", 1)[0] + "/" + name, self._fs)

    def replace(self, target):
        # os.replace: atomic - the target has either its old or its new contents (a crash point like any write)
        t = str(target)
        data = self._fs.files[self._p]
        _fs_write(self._fs, t, data, atomic=True)
        del self._fs.files[self._p]
        return FakePath(t, self._fs)

    def rename(self, target):
        t = str(target)
        self._fs.files[t] = self._fs.files.pop(self._p)
        self._fs.renames.append((self._p, t))
        return FakePath(t, self._fs)

    def rglob(self, pattern):
        assert pattern.startswith("*.")
        ext = pattern[1:]
        pre = self._p.rstrip("/") + "/"
        return [FakePath(p, self._fs) for p in sorted(self._fs.files)
                if p.startswith(pre) and p.endswith(ext)
                and not p[len(pre):].startswith(".")]

    def open(self, mode="r", *a, **k):
        return _FakeFile(self, mode)

    def stat(self):
        class _S:
            st_size = len(self._fs.files[self._p])
        return _S()


class _FakeFile:
    def __init__(self, path, mode):
        self._path, self._mode = path, mode
        self._buf = []
        self._pos = 0

    def __enter__(self):
        return self

    def __exit__(self, *a):
        if "w" in self._mode:
            self._path.write_text("".join(self._buf))
        return False

    def write(self, s):
        self._buf.append(s)

    def read(self, n=-1):
        data = self._path.read_text()
        if n is None or n < 0:
            out, self._pos = data[self._pos:], len(data)
        else:
            out, self._pos = data[self._pos:self._pos + n], min(len(data), self._pos + n)
        return out

    def __iter__(self):
        data = self._path.read_text()
        return iter(data.splitlines(True))


class JsonShim:
    """json stand-in over the FakeFS: stores Python dicts as-is (C accelerator would realise)."""

    @staticmethod
    def dump(obj, f, **k):
        f._buf = []
        f._obj = obj
        f._mode = "r"   # suppress text write on close
        _fs_write(f._path._fs, f._path._p, _JsonBlob(dict(obj)))

    @staticmethod
    def dumps(obj, **k):
        return _JsonBlob(dict(obj))

    @staticmethod
    def loads(blob):
        if isinstance(blob, _JsonBlob):
            return dict(blob.obj)
        raise ValueError("not json: %r" % (blob,))


class _JsonBlob:
    def __init__(self, obj):
        self.obj = obj

    def __eq__(self, o):
        return isinstance(o, _JsonBlob) and o.obj == self.obj

    def __repr__(self):
        return "_JsonBlob(%r)" % (self.obj,)
