"""Engine SQL: the SQLAlchemy clause tree that the REAL to_sql_select returns, interpreted over a symbolic
database with at most K rows per table (every column a z3 constant, every row with a presence bit).

Nothing is transcribed from _query_converter.py: the input is the statement object it builds.  Supported node
types (a node outside this list raises Unsupported = harness error, never a verdict):
  Select / ScalarSelect with Join froms, BooleanClauseList(and_/or_), BinaryExpression(eq ne lt le gt ge is_ is_not
  in_op not_in_op like_op not_like_op ilike_op not_ilike_op), Grouping, BindParameter (scalars, dates, enums, expanding
  lists), Null, Column, Function(date), Cast(INTEGER), True_/False_.
SQL three-valued logic: every boolean is a pair (value, is_null).
Leaf models (trusted, validated against real SQLite in vlib/sqlcheck.py and on every replay):
  LIKE: % = any string, _ = any one character, ESCAPE as given (none => backslash is an ordinary character),
        ASCII letters compare case-insensitively (SQLite's built-in LIKE; SQLAlchemy's ilike lowers both sides);
  dates are day numbers (ISO text order == date order);  date(v) / CAST(v AS INTEGER) on the typed value union.
"""
import datetime as dt

import z3
from sqlalchemy.sql import elements as E
from sqlalchemy.sql import selectable as S
from sqlalchemy.sql import functions as F

EPOCH = dt.date(2000, 1, 1)


class Unsupported(Exception):
    pass


def day(d):
    return (d - EPOCH).days


# ------------------------------------------------------------------------------- symbolic database
SCHEMA = {
    "note": {"id": "int", "body": "str", "zid": "str", "create_date": "date", "modify_date": "date",
             "todo_priority": "str?", "todo_status": "str?", "page_path": "str", "line_no": "int", "block_id": "int"},
    "page": {"id": "int", "path": "str", "has_errors": "bool"},
    "area": {"id": "int", "name": "str"}, "arealink": {"note_id": "int", "area_id": "int"},
    "context": {"id": "int", "name": "str"}, "contextlink": {"note_id": "int", "context_id": "int"},
    "person": {"id": "int", "name": "str"}, "personlink": {"note_id": "int", "person_id": "int"},
    "project": {"id": "int", "name": "str"}, "projectlink": {"note_id": "int", "project_id": "int"},
    "property": {"id": "int", "name": "str"},
    "propertylink": {"note_id": "int", "prop_id": "int", "value": "pval"},
    "link": {"id": "int", "name": "str"}, "linklink": {"note_id": "int", "link_id": "int"},
}


class PVal:
    """property value: a tagged union {ISO date, decimal integer, other text}"""

    def __init__(self, prefix):
        self.kind = z3.Int(prefix + "_kind")       # 0 date, 1 int, 2 text
        self.date = z3.Int(prefix + "_date")
        self.int = z3.Int(prefix + "_int")
        self.text = z3.String(prefix + "_text")


class Row:
    def __init__(self, table, idx):
        self.table, self.idx = table, idx
        self.present = z3.Bool("%s%d_present" % (table, idx))
        self.cols, self.nulls = {}, {}
        for col, ty in SCHEMA[table].items():
            nm = "%s%d_%s" % (table, idx, col)
            base = ty.rstrip("?")
            if base == "int" or base == "date":
                self.cols[col] = z3.Int(nm)
            elif base == "str":
                self.cols[col] = z3.String(nm)
            elif base == "bool":
                self.cols[col] = z3.Bool(nm)
            elif base == "pval":
                self.cols[col] = PVal(nm)
            self.nulls[col] = z3.Bool(nm + "_null") if ty.endswith("?") else z3.BoolVal(False)


class DB:
    def __init__(self, k=2, sizes=None):
        self.rows = {t: [Row(t, i) for i in range((sizes or {}).get(t, k))] for t in SCHEMA}

    def all_rows(self):
        return [r for rows in self.rows.values() for r in rows]


# ------------------------------------------------------------------------------- LIKE as a z3 regex
ANY = z3.AllChar(z3.ReSort(z3.StringSort()))


def like_regex(pattern, escape, ci):
    parts = []
    i = 0
    while i < len(pattern):
        ch = pattern[i]
        if escape and ch == escape and i + 1 < len(pattern):
            i += 1
            parts.append(_lit(pattern[i], ci))
        elif ch == "%":
            parts.append(z3.Star(ANY))
        elif ch == "_":
            parts.append(ANY)
        else:
            parts.append(_lit(ch, ci))
        i += 1
    if not parts:
        return z3.Re(z3.StringVal(""))
    return parts[0] if len(parts) == 1 else z3.Concat(*parts)


def glob_regex(pattern):
    """SQLite GLOB: * any run, ? one character, [..] a class (^ negates, a-b ranges, a leading ] is literal); case-sensitive;
    a class that is never closed matches nothing"""
    empty = z3.Empty(z3.ReSort(z3.StringSort()))
    parts = []
    i = 0
    while i < len(pattern):
        ch = pattern[i]
        if ch == "*":
            parts.append(z3.Star(ANY))
        elif ch == "?":
            parts.append(ANY)
        elif ch == "[":
            j = i + 1
            neg = j < len(pattern) and pattern[j] == "^"
            if neg:
                j += 1
            alts = []
            first = True
            while j < len(pattern) and (pattern[j] != "]" or first):
                if j + 2 < len(pattern) and pattern[j + 1] == "-" and pattern[j + 2] != "]":
                    alts.append(z3.Range(pattern[j], pattern[j + 2]))
                    j += 3
                else:
                    alts.append(z3.Re(z3.StringVal(pattern[j])))
                    j += 1
                first = False
            if j >= len(pattern):
                return empty
            cls = alts[0] if len(alts) == 1 else z3.Union(*alts)
            parts.append(z3.Intersect(ANY, z3.Complement(cls)) if neg else cls)
            i = j
        else:
            parts.append(z3.Re(z3.StringVal(ch)))
        i += 1
    if not parts:
        return z3.Re(z3.StringVal(""))
    return parts[0] if len(parts) == 1 else z3.Concat(*parts)


def _lit(ch, ci):
    if ci and ch.isascii() and ch.isalpha():
        return z3.Union(z3.Re(z3.StringVal(ch.lower())), z3.Re(z3.StringVal(ch.upper())))
    return z3.Re(z3.StringVal(ch))


def contains_regex(text, ci):
    """Sigma* text Sigma*  (every character literal; ASCII case-insensitive if ci)"""
    lits = [_lit(ch, ci) for ch in text]
    mid = lits[0] if len(lits) == 1 else (z3.Concat(*lits) if lits else z3.Re(z3.StringVal("")))
    return z3.Concat(z3.Star(ANY), mid, z3.Star(ANY))


# ------------------------------------------------------------------------------- evaluation
class Val:
    """a scalar SQL value: kind in {int, str, date, pval, pydate, list}; term; null (z3 Bool)"""

    def __init__(self, kind, term, null=None):
        self.kind, self.term, self.null = kind, term, (null if null is not None else z3.BoolVal(False))


TRUE, FALSE = z3.BoolVal(True), z3.BoolVal(False)


class Encoder:
    def __init__(self, db, placeholders=None):
        self.db = db
        self.placeholders = placeholders if placeholders is not None else {}     # marker string -> z3 String term (values that flowed through Python)
        self.nodes = 0

    # -- scalars
    def scalar(self, node, env):
        self.nodes += 1
        if isinstance(node, E.Grouping):
            return self.scalar(node.element, env)
        if isinstance(node, E.ClauseList) and not isinstance(node, E.BooleanClauseList):
            items = list(node.clauses)
            if len(items) != 1:
                raise Unsupported("clause list of %d" % len(items))
            return self.scalar(items[0], env)
        if isinstance(node, E.Null):
            return Val("null", None, TRUE)
        if isinstance(node, E.ColumnClause) and getattr(node, "table", None) is not None:
            t, c = node.table.name, node.name
            if t not in env:
                raise Unsupported("column %s.%s outside its FROM scope" % (t, c))
            row = env[t]
            ty = SCHEMA[t][c].rstrip("?")
            return Val({"int": "int", "str": "str", "date": "date", "pval": "pval", "bool": "bool"}[ty], row.cols[c], row.nulls[c])
        if isinstance(node, E.BindParameter):
            return self.bind(node)
        if isinstance(node, F.Function) or type(node).__name__ == "Function":
            name = node.name.lower()
            args = list(node.clauses)
            if name == "date" and len(args) == 1:
                v = self.scalar(args[0], env)
                if v.kind != "pval":
                    raise Unsupported("date() of %s" % v.kind)
                # date(v): the ISO date itself; NULL for anything that is not a date
                return Val("date", v.term.date, z3.Or(v.null, v.term.kind != 0))
            if name == "cast":
                raise Unsupported("func.cast form")
            raise Unsupported("function %s" % name)
        if isinstance(node, E.Cast):
            v = self.scalar(node.clause, env)
            if str(node.type).upper() != "INTEGER" or v.kind != "pval":
                raise Unsupported("cast to %s of %s" % (node.type, v.kind))
            return Val("int", v.term.int, v.null)
        if type(node).__name__ in ("Cast",):
            raise Unsupported("cast")
        raise Unsupported("scalar node %s" % type(node).__name__)

    def bind(self, node):
        v = node.value
        if getattr(node, "expanding", False) or isinstance(v, (list, tuple)):
            return Val("list", [self.pyval(x) for x in v])
        return self.pyval(v)

    def pyval(self, v):
        import enum
        if v is None:
            return Val("null", None, TRUE)
        if isinstance(v, bool):
            return Val("bool", z3.BoolVal(v))
        if isinstance(v, int):
            return Val("int", z3.IntVal(v))
        if isinstance(v, dt.datetime):
            v = v.date()
        if isinstance(v, dt.date):
            return Val("date", z3.IntVal(day(v)))
        if isinstance(v, enum.Enum):
            return Val("str", z3.StringVal(v.name))
        if isinstance(v, str):
            return Val("str", self.str_term(v), None)
        if hasattr(v, "z3term"):
            return Val(v.z3kind, v.z3term)
        raise Unsupported("bind value %r" % (v,))

    def str_term(self, s):
        """a Python string that may contain placeholder markers standing for symbolic values"""
        if not self.placeholders or "\x00" not in s:
            return z3.StringVal(s)
        parts, rest = [], s
        while rest:
            k = rest.find("\x00")
            if k < 0:
                parts.append(z3.StringVal(rest))
                break
            if k:
                parts.append(z3.StringVal(rest[:k]))
            j = rest.index("\x00", k + 1)
            parts.append(self.placeholders[rest[k:j + 1]])
            rest = rest[j + 1:]
        return parts[0] if len(parts) == 1 else z3.Concat(*parts)

    # -- booleans: (value, null)
    def boolean(self, node, env):
        self.nodes += 1
        if isinstance(node, E.Grouping):
            return self.boolean(node.element, env)
        if isinstance(node, (E.True_,)):
            return TRUE, FALSE
        if isinstance(node, (E.False_,)):
            return FALSE, FALSE
        if isinstance(node, E.BooleanClauseList):
            op = node.operator.__name__
            parts = [self.boolean(c, env) for c in node.clauses]
            if op == "and_":
                # SQL AND: false if any false; null if none false and some null; else true
                anyf = z3.Or(*[z3.And(z3.Not(n), z3.Not(v)) for v, n in parts])
                anyn = z3.Or(*[n for v, n in parts])
                return z3.And(z3.Not(anyf), z3.Not(anyn)), z3.And(z3.Not(anyf), anyn)
            if op == "or_":
                anyt = z3.Or(*[z3.And(z3.Not(n), v) for v, n in parts])
                anyn = z3.Or(*[n for v, n in parts])
                return anyt, z3.And(z3.Not(anyt), anyn)
            raise Unsupported("boolean list operator %s" % op)
        if isinstance(node, E.UnaryExpression) or type(node).__name__ == "UnaryExpression":
            raise Unsupported("unary expression")
        if isinstance(node, E.BinaryExpression):
            return self.binary(node, env)
        raise Unsupported("boolean node %s" % type(node).__name__)

    def binary(self, node, env):
        # (col.op("GLOB") is a custom_op INSTANCE: it has an opstring, and its class name as __name__)
        opstring = getattr(node.operator, "opstring", None)
        op = "custom:%s" % opstring if opstring is not None else node.operator.__name__
        if op == "custom:GLOB":
            left, right = self.scalar(node.left, env), self.scalar(node.right, env)
            if left.kind != "str" or right.kind != "str" or not z3.is_string_value(right.term):
                raise Unsupported("GLOB with a non-constant pattern")
            return z3.InRe(left.term, glob_regex(right.term.as_string())), z3.Or(left.null, right.null)
        if op in ("in_op", "not_in_op"):
            left = self.scalar(node.left, env)
            member, anynull = self.membership(left, node.right, env)
            val = member if op == "in_op" else z3.Not(member)
            # x IN S is NULL when x is NULL, or when x is not found and S contains a NULL
            null = z3.Or(left.null, z3.And(z3.Not(member), anynull))
            return val, null
        if op in ("is_", "is_not"):
            left = self.scalar(node.left, env)
            if not isinstance(node.right, E.Null):
                raise Unsupported("IS with a non-NULL right side")
            return (left.null if op == "is_" else z3.Not(left.null)), FALSE
        left, right = self.scalar(node.left, env), self.scalar(node.right, env)
        null = z3.Or(left.null, right.null)
        if op in ("like_op", "not_like_op", "ilike_op", "not_ilike_op"):
            if left.kind != "str" or right.kind != "str" or not z3.is_string_value(right.term):
                raise Unsupported("LIKE with a non-constant pattern")
            esc = node.modifiers.get("escape")
            # SQLite's LIKE folds ASCII case by itself; ilike lowers both sides first: same relation on ASCII
            rx = like_regex(right.term.as_string(), esc, ci=True)
            m = z3.InRe(left.term, rx)
            return (m if op in ("like_op", "ilike_op") else z3.Not(m)), null
        if left.kind == "null" or right.kind == "null":
            return FALSE, TRUE
        # a raw property value compared with text: BINARY comparison of the stored text (the database is restricted to
        # values of the filter's type, so the stored text IS the text member)
        if left.kind == "pval" and right.kind == "str":
            left = Val("str", left.term.text, left.null)
        if right.kind == "pval" and left.kind == "str":
            right = Val("str", right.term.text, right.null)
        if left.kind != right.kind:
            raise Unsupported("comparison %s between %s and %s" % (op, left.kind, right.kind))
        a, b = left.term, right.term
        if op == "eq":
            v = a == b
        elif op == "ne":
            v = a != b
        elif left.kind in ("int", "date"):
            v = {"lt": a < b, "le": a <= b, "gt": a > b, "ge": a >= b}[op]
        elif left.kind == "str":
            v = {"lt": a < b, "le": a <= b, "gt": a > b, "ge": a >= b}[op]
        else:
            raise Unsupported("operator %s on %s" % (op, left.kind))
        return v, null

    def membership(self, left, right, env):
        """(left IN right, right contains a NULL) for a list bind or a sub-select"""
        if isinstance(right, E.Grouping):
            right = right.element
        if isinstance(right, E.BindParameter):
            lst = self.bind(right)
            if lst.kind != "list":
                raise Unsupported("IN with a scalar bind")
            return (z3.Or(*[left.term == x.term for x in lst.term]) if lst.term else FALSE), FALSE
        sel = right.element if isinstance(right, S.ScalarSelect) else right
        if not isinstance(sel, S.Select):
            raise Unsupported("IN over %s" % type(right).__name__)
        cols = list(sel.selected_columns)
        if len(cols) != 1:
            raise Unsupported("sub-select with %d columns" % len(cols))
        hits, nulls = [], []
        for cond, env2 in self.from_tuples(sel, env):
            v = self.scalar(cols[0], env2)
            hits.append(z3.And(cond, z3.Not(v.null), v.term == left.term))
            nulls.append(z3.And(cond, v.null))
        return (z3.Or(*hits) if hits else FALSE), (z3.Or(*nulls) if nulls else FALSE)

    def from_tuples(self, sel, outer_env):
        """every tuple of rows over the select's FROM tables that is present, joined and passes WHERE"""
        tables, ons = [], []

        def walk(fr):
            if isinstance(fr, S.Join):
                walk(fr.left)
                walk(fr.right)
                if fr.isouter:
                    raise Unsupported("outer join")
                ons.append(fr.onclause)
            elif isinstance(fr, S.TableClause) or hasattr(fr, "name"):
                tables.append(fr.name)
            else:
                raise Unsupported("FROM element %s" % type(fr).__name__)
        for fr in sel.get_final_froms():
            walk(fr)
        import itertools
        out = []
        for combo in itertools.product(*[self.db.rows[t] for t in tables]):
            env = dict(outer_env)
            env.update({t: r for t, r in zip(tables, combo)})
            conds = [r.present for r in combo]
            for on in ons:
                v, n = self.boolean(on, env)
                conds.append(z3.And(v, z3.Not(n)))
            if sel.whereclause is not None:
                v, n = self.boolean(sel.whereclause, env)
                conds.append(z3.And(v, z3.Not(n)))
            out.append((z3.And(*conds), env))
        return out

    def selects(self, stmt, note_row):
        """the statement (SELECT note ... ) returns the given note row"""
        alts = []
        for cond, env in self.from_tuples(stmt, {}):
            alts.append(z3.And(cond, env["note"].cols["id"] == note_row.cols["id"], env["note"].present,
                               *[z3.BoolVal(env["note"] is note_row)]))
        return z3.Or(*alts) if alts else FALSE
