"""Skeleton + holes (DESIGN.md §2.1): parse a concrete page/query with the REAL generated lexer and
parser outside tracing, then walk the REAL parse tree with the REAL listener while selected tokens'
texts are symbolic strings.

The parse tree of both grammars is a function of the token-type sequence only (no predicates, no
actions), so substituting a token's text by any string of the same *token class* that keeps the token
boundaries gives exactly the tree the parser would build for the substituted text.  Class membership
and boundary stability are discharged separately with z3 on the real lexer ATN (vlib/atn.py).
"""
import antlr4
from antlr4.error.ErrorListener import ErrorListener


class Hole:
    """A token whose text is symbolic inside the traced region."""

    def __init__(self, name, default, kind):
        self.name, self.default, self.kind = name, default, kind

    def __repr__(self):
        return "Hole(%s=%r:%s)" % (self.name, self.default, self.kind)


def assemble(parts):
    """parts: str | Hole -> (text, [(offset, Hole)])"""
    text, holes = "", []
    for p in parts:
        if isinstance(p, Hole):
            holes.append((len(text), p))
            text += p.default
        else:
            text += p
    return text, holes


class _Errs(ErrorListener):
    def __init__(self):
        self.errors = []

    def syntaxError(self, recognizer, offendingSymbol, line, column, msg, e):
        self.errors.append("Line %d:%d %s" % (line, column, msg))


class Parsed:
    """A concretely parsed text with its hole tokens located."""

    def __init__(self, text, holes, lexer_cls, parser_cls, start_rule, error_listener=None):
        self.text, self.holes = text, holes
        lexer = lexer_cls(antlr4.InputStream(text))
        lexer.removeErrorListeners()
        self.lex_errors = _Errs()
        lexer.addErrorListener(self.lex_errors)
        self.stream = antlr4.CommonTokenStream(lexer)
        parser = parser_cls(self.stream)
        parser.removeErrorListeners()
        self.parse_errors = error_listener if error_listener is not None else _Errs()
        parser.addErrorListener(self.parse_errors)
        self.tree = getattr(parser, start_rule)()
        self.tokens = list(self.stream.tokens)
        by_start = {t.start: t for t in self.tokens if t.type != -1}
        self.hole_tokens = {}
        for off, h in holes:
            t = by_start.get(off)
            if t is None or t.stop != off + len(h.default) - 1:
                raise ValueError("hole %r at offset %d is not exactly one token of %r (got %r)" % (
                    h, off, text, None if t is None else t.text))
            self.hole_tokens[h.name] = t
        self.type_sequence = [t.type for t in self.tokens]

    def set_texts(self, values):
        """values: hole name -> (possibly symbolic) str.  Every token is reset first (the tree is shared
        between CrossHair paths)."""
        for t in self.hole_tokens.values():
            t._text = None
        for name, v in values.items():
            if name in self.hole_tokens:       # (a derived page may lack some of the original's holes)
                self.hole_tokens[name]._text = v

    def reset(self):
        for t in self.hole_tokens.values():
            t._text = None

    def walk(self, listener):
        antlr4.ParseTreeWalker().walk(listener, self.tree)
        return listener

    def substituted_text(self, values):
        """the concrete text the symbolic run stands for (used by replays and by validation)"""
        out, pos = "", 0
        for off, h in self.holes:
            out += self.text[pos:off] + values.get(h.name, h.default)
            pos = off + len(h.default)
        return out + self.text[pos:]
