"""Engine ATN: the serialized lexer ATN that the generated ZorgFileLexer / ZorgQueryLexer load, turned
into regular expressions rule by rule (state elimination, fragments inlined), and from there into
z3 regexes (for solver queries) and Python `re` patterns (for validating the translation against
the real lexer).  Nothing is transcribed from the .g4 files: the input is `Lexer.atn`.

Token-level facts decided with z3 (QF_S sequences + regex), for strings of ANY length:
  * token_class(T)   = L(T) \\ U_{r earlier than T} L(r): a standalone string lexes as exactly one
                       token of type T iff it is in that set (maximal munch, ties -> earliest rule);
  * included(A, B)   : L(A) subseteq L(B)   (unsat of membership in A and not in B);
  * stable(pre,C,post): for every w in C the text pre+w+post is tokenised as tokens(pre)+[w]+tokens(post).
"""
import re as pyre
import time

import z3
from antlr4.atn.Transition import (AtomTransition, EpsilonTransition, RangeTransition,
                                   RuleTransition, SetTransition)

# ------------------------------------------------------------------------------- regex AST
# ("eps",) | ("set", ((lo,hi),...)) | ("cat", a, b) | ("alt", a, b) | ("star", a) | ("empty",)
EPS = ("eps",)
EMPTY = ("empty",)


def r_set(intervals):
    iv = tuple(sorted((int(a), int(b)) for a, b in intervals))
    return ("set", iv) if iv else EMPTY


def r_cat(a, b):
    if a == EMPTY or b == EMPTY:
        return EMPTY
    if a == EPS:
        return b
    if b == EPS:
        return a
    return ("cat", a, b)


def r_alt(a, b):
    if a == EMPTY:
        return b
    if b == EMPTY:
        return a
    if a == b:
        return a
    if a[0] == "set" and b[0] == "set":
        return r_set(_merge(a[1] + b[1]))
    return ("alt", a, b)


def r_star(a):
    if a in (EMPTY, EPS):
        return EPS
    if a[0] == "star":
        return a
    return ("star", a)


def _merge(iv):
    iv = sorted(iv)
    out = []
    for lo, hi in iv:
        if out and lo <= out[-1][1] + 1:
            out[-1] = (out[-1][0], max(out[-1][1], hi))
        else:
            out.append((lo, hi))
    return tuple(out)


def lit(s):
    r = EPS
    for ch in s:
        r = r_cat(r, r_set([(ord(ch), ord(ch))]))
    return r


# ------------------------------------------------------------------------------- ATN -> regex
class LexerModel:
    def __init__(self, lexer_cls):
        self.cls = lexer_cls
        self.atn = lexer_cls.atn
        self.rule_names = list(lexer_cls.ruleNames)
        self.rule_index = {n: i for i, n in enumerate(self.rule_names)}
        self.token_type = list(self.atn.ruleToTokenType)
        self._rx = {}
        self.token_rules = [i for i, t in enumerate(self.token_type) if t != 0]
        self.type_to_rule = {self.token_type[i]: i for i in self.token_rules}

    # -- rule regex by state elimination over the rule's sub-NFA
    def rule_regex(self, idx):
        if idx in self._rx:
            return self._rx[idx]
        atn = self.atn
        start = atn.ruleToStartState[idx]
        stop = atn.ruleToStopState[idx]
        edges = {}   # (src, dst) -> regex
        seen, todo = {start.stateNumber}, [start]

        def add(a, b, r):
            key = (a, b)
            edges[key] = r_alt(edges[key], r) if key in edges else r

        while todo:
            s = todo.pop()
            if s.stateNumber == stop.stateNumber:
                continue
            for t in s.transitions:
                if isinstance(t, RuleTransition):
                    lab = self.rule_regex(t.ruleIndex)
                    dst = t.followState
                elif isinstance(t, EpsilonTransition):
                    lab, dst = EPS, t.target
                elif isinstance(t, AtomTransition):
                    lab, dst = r_set([(t.label_, t.label_)]), t.target
                elif isinstance(t, RangeTransition):
                    lab, dst = r_set([(t.start, t.stop)]), t.target
                elif isinstance(t, SetTransition):
                    ivs = [(iv.start, iv.stop - 1) for iv in t.label.intervals]
                    lab, dst = r_set(ivs), t.target
                else:
                    raise NotImplementedError("transition %s in lexer ATN" % type(t).__name__)
                add(s.stateNumber, dst.stateNumber, lab)
                if dst.stateNumber not in seen:
                    seen.add(dst.stateNumber)
                    todo.append(dst)
        S, F = start.stateNumber, stop.stateNumber
        inner = [n for n in seen if n not in (S, F)]
        # eliminate in an order that keeps expressions small: fewest in*out first
        while inner:
            def cost(n):
                i = sum(1 for (a, b) in edges if b == n and a != n)
                o = sum(1 for (a, b) in edges if a == n and b != n)
                return i * o
            n = min(inner, key=cost)
            inner.remove(n)
            loop = edges.pop((n, n), None)
            mid = r_star(loop) if loop is not None else EPS
            ins = [(a, r) for (a, b), r in edges.items() if b == n]
            outs = [(b, r) for (a, b), r in edges.items() if a == n]
            for (a, _r) in ins:
                edges.pop((a, n))
            for (b, _r) in outs:
                edges.pop((n, b))
            for a, ra in ins:
                for b, rb in outs:
                    add(a, b, r_cat(r_cat(ra, mid), rb))
        loopS = edges.get((S, S))
        r = edges.get((S, F), EMPTY)
        if loopS is not None:
            r = r_cat(r_star(loopS), r)
        assert (F, F) not in edges and (F, S) not in edges
        self._rx[idx] = r
        return r

    def regex(self, name):
        return self.rule_regex(self.rule_index[name])

    def earlier_token_rules(self, name):
        i = self.rule_index[name]
        return [j for j in self.token_rules if j < i]

    # -- concrete reference: the real lexer
    def lex(self, text):
        import antlr4
        from antlr4.error.ErrorListener import ErrorListener

        class _E(ErrorListener):
            def __init__(self):
                self.n = 0

            def syntaxError(self, *a):
                self.n += 1

        lx = self.cls(antlr4.InputStream(text))
        lx.removeErrorListeners()
        e = _E()
        lx.addErrorListener(e)
        toks = []
        while True:
            t = lx.nextToken()
            if t.type == -1:
                break
            toks.append((self.rule_names[self.type_to_rule[t.type]], t.text))
        return toks, e.n


# ------------------------------------------------------------------------------- to z3 / python re
def to_z3(r):
    k = r[0]
    if k == "eps":
        return z3.Re(z3.StringVal(""))
    if k == "empty":
        return z3.Empty(z3.ReSort(z3.StringSort()))
    if k == "set":
        parts = [z3.Range(chr(lo), chr(hi)) if lo != hi else z3.Re(z3.StringVal(chr(lo)))
                 for lo, hi in r[1]]
        return parts[0] if len(parts) == 1 else z3.Union(*parts)
    if k == "cat":
        return z3.Concat(to_z3(r[1]), to_z3(r[2]))
    if k == "alt":
        return z3.Union(to_z3(r[1]), to_z3(r[2]))
    if k == "star":
        return z3.Star(to_z3(r[1]))
    raise ValueError(k)


def to_py(r):
    k = r[0]
    if k == "eps":
        return ""
    if k == "empty":
        return "(?!)"
    if k == "set":
        out = []
        for lo, hi in r[1]:
            a, b = pyre.escape(chr(lo)), pyre.escape(chr(hi))
            out.append(a if lo == hi else "%s-%s" % (a, b))
        return "[" + "".join(out) + "]"
    if k == "cat":
        return to_py(r[1]) + to_py(r[2])
    if k == "alt":
        return "(?:%s|%s)" % (to_py(r[1]), to_py(r[2]))
    if k == "star":
        return "(?:%s)*" % to_py(r[1])
    raise ValueError(k)


def to_smtlib(r):
    """SMT-LIB2 regex term (for the cvc5 second opinion)."""
    k = r[0]
    if k == "eps":
        return '(str.to_re "")'
    if k == "empty":
        return "re.none"
    if k == "set":
        parts = []
        for lo, hi in r[1]:
            parts.append('(re.range "%s" "%s")' % (_smt_ch(lo), _smt_ch(hi)))
        return parts[0] if len(parts) == 1 else "(re.union %s)" % " ".join(parts)
    if k == "cat":
        return "(re.++ %s %s)" % (to_smtlib(r[1]), to_smtlib(r[2]))
    if k == "alt":
        return "(re.union %s %s)" % (to_smtlib(r[1]), to_smtlib(r[2]))
    if k == "star":
        return "(re.* %s)" % to_smtlib(r[1])
    raise ValueError(k)


def _smt_ch(c):
    ch = chr(c)
    if ch == '"':
        return '""'
    if 32 <= c < 127 and ch != "\\":
        return ch
    return "\\u{%x}" % c


# ------------------------------------------------------------------------------- derivatives
def nullable(r):
    k = r[0]
    if k in ("eps", "star"):
        return True
    if k in ("empty", "set"):
        return False
    if k == "cat":
        return nullable(r[1]) and nullable(r[2])
    if k == "alt":
        return nullable(r[1]) or nullable(r[2])
    raise ValueError(k)


def deriv(r, c):
    """Brzozowski derivative of r by the character code c."""
    k = r[0]
    if k in ("eps", "empty"):
        return EMPTY
    if k == "set":
        return EPS if any(lo <= c <= hi for lo, hi in r[1]) else EMPTY
    if k == "cat":
        d = r_cat(deriv(r[1], c), r[2])
        return r_alt(d, deriv(r[2], c)) if nullable(r[1]) else d
    if k == "alt":
        return r_alt(deriv(r[1], c), deriv(r[2], c))
    if k == "star":
        return r_cat(deriv(r[1], c), r)
    raise ValueError(k)


def deriv_str(r, s):
    for ch in s:
        r = deriv(r, ord(ch))
        if r == EMPTY:
            return EMPTY
    return r


def rev(r):
    k = r[0]
    if k == "cat":
        return r_cat(rev(r[2]), rev(r[1]))
    if k == "alt":
        return r_alt(rev(r[1]), rev(r[2]))
    if k == "star":
        return r_star(rev(r[1]))
    return r


def rquot_str(r, s):
    """{ w | w.s in L(r) }"""
    return rev(deriv_str(rev(r), s[::-1]))


def is_empty_lang(r):
    k = r[0]
    if k == "empty":
        return True
    if k in ("eps", "set", "star"):
        return False
    if k == "cat":
        return is_empty_lang(r[1]) or is_empty_lang(r[2])
    if k == "alt":
        return is_empty_lang(r[1]) and is_empty_lang(r[2])
    raise ValueError(k)


def prefixes(r):
    """prefix closure (including the empty string) of a regex"""
    k = r[0]
    if k == "eps":
        return EPS
    if k == "empty":
        return EMPTY
    if k == "set":
        return r_alt(EPS, r)
    if k == "cat":
        if is_empty_lang(r[1]) or is_empty_lang(r[2]):
            return EMPTY
        return r_alt(prefixes(r[1]), r_cat(r[1], prefixes(r[2])))
    if k == "alt":
        return r_alt(prefixes(r[1]), prefixes(r[2]))
    if k == "star":
        return r_cat(r, prefixes(r[1]))
    raise ValueError(k)


def cls_chars(chars):
    return r_set(_merge([(ord(c), ord(c)) for c in chars]))


def plus(r):
    return r_cat(r, r_star(r))


def opt(r):
    return r_alt(EPS, r)


def seq(*rs):
    out = EPS
    for r in rs:
        out = r_cat(out, r)
    return out


def alt(*rs):
    out = EMPTY
    for r in rs:
        out = r_alt(out, r)
    return out


def matches(r, s):
    """concrete membership by derivatives (used to validate classes against the real lexer)"""
    d = deriv_str(r, s)
    return d != EMPTY and nullable(d)


# ------------------------------------------------------------------------------- queries
class Queries:
    """z3 queries about one lexer; every call is logged (name, verdict, seconds) for the evidence."""

    def __init__(self, model: LexerModel, timeout_ms=60000):
        self.m = model
        self.timeout_ms = timeout_ms
        self.log = []
        self._z = {}

    def z(self, rule_idx):
        if rule_idx not in self._z:
            self._z[rule_idx] = to_z3(self.m.rule_regex(rule_idx))
        return self._z[rule_idx]

    def _check(self, name, constraints, wvar=None):
        s = z3.Solver()
        s.set("timeout", self.timeout_ms)
        for c in constraints:
            s.add(c)
        t0 = time.time()
        res = str(s.check())
        wit = None
        if res == "sat" and wvar is not None:
            mdl = s.model()
            wit = {str(v): (mdl.eval(v, model_completion=True).as_string()
                            if z3.is_string(v) else str(mdl.eval(v, model_completion=True)))
                   for v in (wvar if isinstance(wvar, (list, tuple)) else [wvar])}
        rec = {"name": name, "result": res, "s": round(time.time() - t0, 3), "witness": wit}
        self.log.append(rec)
        return rec

    def in_class(self, w, rule_name):
        """z3 constraint: w is lexed, standalone, as exactly one token of type rule_name."""
        i = self.m.rule_index[rule_name]
        cs = [z3.InRe(w, self.z(i))]
        for j in self.m.earlier_token_rules(rule_name):
            cs.append(z3.Not(z3.InRe(w, self.z(j))))
        return z3.And(*cs)

    def class_included(self, name, cls_re, rule_name):
        """every string of cls_re (a z3 regex) lexes standalone as one token of rule_name"""
        w = z3.String("w")
        return self._check(name, [z3.InRe(w, cls_re), z3.Not(self.in_class(w, rule_name))], w)

    def no_rule_spans(self, name, ch):
        """no token rule other than the single-character rule for `ch` matches a string containing ch"""
        w = z3.String("w")
        bad = []
        for j in self.m.token_rules:
            bad.append(z3.And(z3.InRe(w, self.z(j)), z3.Length(w) > 1))
        return self._check(name, [z3.Contains(w, z3.StringVal(ch)), z3.Or(*bad)], w)

    def only_rule_with(self, name, ch, allowed):
        """no token rule other than `allowed` matches a string containing ch"""
        w = z3.String("w")
        bad = [z3.InRe(w, self.z(j)) for j in self.m.token_rules if self.m.rule_names[j] != allowed]
        return self._check(name, [z3.Contains(w, z3.StringVal(ch)), z3.Or(*bad)], w)

    def stable(self, name, pre, cls, post):
        """for every w in cls (regex AST): lex(pre + w + post) == lex(pre) ++ [w] ++ lex(post),
        given that w standalone lexes as one token (class_included, checked separately).

        pre/post are concrete strings whose own tokenisation is computed with the real lexer.  A
        different tokenisation needs a token rule r and a match u that starts at an intended token
        start and is LONGER than the intended token (maximal munch would prefer it).  With X the
        text from that start on, u is a prefix of X ending (ii) inside w or (iii) inside post
        (ending inside pre is excluded by the real lexer's own tokenisation of pre).  Each case is
        one regex-intersection non-emptiness query over a single string variable, using Brzozowski
        derivatives (left quotient by the concrete prefix, right quotient by the concrete suffix):
          (ii)  x in Pref+(cls)  and  x in  p^-1 L(r)
          (iii) w in cls         and  w in (p^-1 L(r)) q1^-1        for every nonempty prefix q1 of post
        All unsat = stable."""
        m = self.m
        ptoks, perr = m.lex(pre)
        qtoks, qerr = m.lex(post)
        if perr or qerr:
            rec = {"name": name, "result": "error", "s": 0, "witness": "context does not lex"}
            self.log.append(rec)
            return rec
        x = z3.String("x")
        t0 = time.time()
        starts = []
        pos = 0
        for _n, t in ptoks:
            starts.append(pos)
            pos += len(t)
        starts.append(len(pre))
        pref_cls = to_z3(prefixes(cls))
        zcls = to_z3(cls)
        alts = []
        for st in starts:
            p = pre[st:]
            for j in m.token_rules:
                d = deriv_str(m.rule_regex(j), p)
                if d == EMPTY:
                    continue
                if p:   # (ii): a longer match ending inside w (only for boundaries inside pre)
                    alts.append(z3.And(z3.Length(x) > 0, z3.InRe(x, pref_cls), z3.InRe(x, to_z3(d))))
                for k in range(1, len(post) + 1):   # (iii)
                    dq = rquot_str(d, post[:k])
                    if dq == EMPTY:
                        continue
                    alts.append(z3.And(z3.InRe(x, zcls), z3.InRe(x, to_z3(dq))))
        if not alts:
            rec = {"name": name, "result": "unsat", "s": round(time.time() - t0, 3), "witness": None,
                   "note": "no rule can extend across the boundaries (all quotients empty)"}
            self.log.append(rec)
            return rec
        return self._check(name, [z3.Or(*alts)], x)

    def summary(self):
        return {"queries": len(self.log),
                "unsat": sum(1 for r in self.log if r["result"] == "unsat"),
                "sat": sum(1 for r in self.log if r["result"] == "sat"),
                "unknown": sum(1 for r in self.log if r["result"] not in ("sat", "unsat")),
                "seconds": round(sum(r["s"] for r in self.log), 2)}


def validate_against_lexer(model: LexerModel, texts):
    """Translation validation: every token the real lexer produces on `texts` must match the derived
    regex of its rule (and of no earlier rule).  Returns (tokens checked, mismatches)."""
    pats = {}
    n, bad = 0, []
    for text in texts:
        toks, _ = model.lex(text)
        for rule, tx in toks:
            i = model.rule_index[rule]
            for j in [i] + model.earlier_token_rules(rule):
                if j not in pats:
                    pats[j] = pyre.compile(to_py(model.rule_regex(j)) + r"\Z", pyre.S)
            n += 1
            if not pats[i].match(tx):
                bad.append((rule, tx, "own rule regex rejects"))
            for j in model.earlier_token_rules(rule):
                if pats[j].match(tx):
                    bad.append((rule, tx, "earlier rule %s accepts" % model.rule_names[j]))
    return n, bad
