"""Common driver: collects condition results, replays counterexamples, handles known findings,
writes /verif/evidence/<id>.json and decides the exit status (DESIGN.md §2.3, §2.4, §2.6)."""
import hashlib
import json
import os
import sys
import time
import traceback

HERE = os.path.dirname(os.path.abspath(__file__))
VERIF = os.path.dirname(HERE)
EXIT_OK, EXIT_VIOLATION, EXIT_HARNESS = 0, 1, 2
MAX_REPLAYED_VIOLATIONS = int(os.environ.get("VERIF_MAX_REPLAYS", "8"))


def known_findings(pid):
    """Entries of /verif/known_findings.json for property pid: (known, fixed).  Never written here."""
    path = os.path.join(VERIF, "known_findings.json")
    if not os.path.exists(path):
        return [], []
    data = json.load(open(path))
    ents = [e for e in data.get("findings", []) if e.get("property") == pid]
    return ([e for e in ents if e.get("status") == "known"],
            [e for e in ents if e.get("status") == "fixed"])


def active_known_ids(pid):
    return sorted(e["id"] for e in known_findings(pid)[0])


class Report:
    def __init__(self, pid, tier, seed):
        self.pid, self.tier, self.seed = pid, tier, seed
        self.t0 = time.time()
        self.conditions = []      # one dict per solver obligation
        self.functions = set()
        self.stubs = []
        self.bounds = []
        self.outside = []
        self.violations = []      # dicts with replay path
        self.known_printed = []
        self.harness_errors = []
        self.notes = []
        self.samples = []
        self.solver_cpu = 0.0
        self.explanation = ""

    # ------------------------------------------------------------------ describing the run
    def describe(self, explanation=None, functions=(), stubs=(), bounds=(), outside=()):
        if explanation:
            self.explanation = explanation
        self.functions.update(functions)
        self.stubs.extend(s for s in stubs if s not in self.stubs)
        self.bounds.extend(b for b in bounds if b not in self.bounds)
        self.outside.extend(o for o in outside if o not in self.outside)

    def note(self, s):
        self.notes.append(s)

    def sample(self, s):
        if len(self.samples) < 12:
            self.samples.append(s)

    # ------------------------------------------------------------------ obligations
    def add(self, name, engine, status, detail="", cpu_s=0.0, paths=None, family="", witness=None,
            bound=""):
        """status: confirmed | unsat (held) ; refuted | sat (counterexample) ; inconclusive ; error"""
        rec = {"name": name, "engine": engine, "status": status, "detail": detail,
               "cpu_s": round(cpu_s, 2), "family": family}
        if paths is not None:
            rec["paths"] = paths
        if witness is not None:
            rec["witness"] = witness
        if bound:
            rec["bound"] = bound
        self.conditions.append(rec)
        self.solver_cpu += cpu_s
        return rec

    def harness_error(self, msg):
        self.harness_errors.append(msg)
        sys.stderr.write("HARNESS-ERROR %s: %s\n" % (self.pid, msg))

    # ------------------------------------------------------------------ counterexamples
    def violation(self, what, record):
        """A counterexample that REPRODUCED on the unpatched real code."""
        d = os.path.join(VERIF, "replays", self.pid)
        os.makedirs(d, exist_ok=True)
        blob = json.dumps(record, sort_keys=True, default=str)
        digest = hashlib.sha256(blob.encode()).hexdigest()[:12]
        path = os.path.join(d, digest + ".json")
        with open(path, "w") as f:
            json.dump(record, f, indent=1, sort_keys=True, default=str)
        self.violations.append({"what": what, "replay": path})
        print("VIOLATION property=%s replay=%s" % (self.pid, path))
        sys.stdout.flush()

    def known(self, finding_id, what):
        self.known_printed.append({"id": finding_id, "what": what})
        print("KNOWN-FINDING: property=%s %s %s" % (self.pid, finding_id, what))
        sys.stdout.flush()

    # ------------------------------------------------------------------ finish
    def finish(self):
        held = [c for c in self.conditions if c["status"] in ("confirmed", "unsat")]
        inconc = [c for c in self.conditions if c["status"] == "inconclusive"]
        errs = [c for c in self.conditions if c["status"] == "error"]
        cex = [c for c in self.conditions if c["status"] in ("refuted", "sat")]
        for c in errs:
            self.harness_error("condition %s: %s" % (c["name"], c["detail"]))
        if not held and not self.violations and not self.known_printed:
            self.harness_error("nothing was decided")
        distinct = len({c["name"] for c in self.conditions})
        cov = {
            "explanation": self.explanation or "bounded symbolic execution / SMT over the real code",
            "technique": "solver-based checking of the real code (CrossHair symbolic execution with z3; direct z3/cvc5 queries on encodings regenerated from /repo)",
            "functions_encoded": sorted(self.functions),
            "stubs_and_assumptions": self.stubs,
            "bounds": self.bounds,
            "outside_the_claim": self.outside,
            "obligations": len(self.conditions),
            "discharged": len(held),
            "inconclusive": len(inconc),
            "counterexamples": len(cex),
            "counterexamples_reproduced": len(self.violations),
            "known_findings_reported": self.known_printed,
            "harness_errors": self.harness_errors,
            "solver_cpu_s": round(self.solver_cpu, 1),
            "paths_explored": sum(c.get("paths") or 0 for c in self.conditions),
            "evaluations": len(self.conditions),
            "distinct_nontrivial": distinct,
            "rule": "one evaluation = one solver obligation (a CrossHair condition decided over all its "
                    "paths, or one z3/cvc5 query); distinct = distinct obligation names; vacuous "
                    "obligations (no path reaches the assertion) are harness errors, not counted as held",
            "samples": self.samples or [c["name"] for c in self.conditions[:5]],
            "conditions": self.conditions,
            "notes": self.notes,
            "exhaustive": False,
        }
        ev = {
            "property_id": self.pid,
            "tier": self.tier,
            "seed": int(self.seed),
            "level": "other",
            "coverage": cov,
            "assumptions": self.stubs + self.outside,
            "wall_s": round(time.time() - self.t0, 1),
            "violations": len(self.violations),
        }
        # (VERIF_EVIDENCE_DIR: only tools/eval_seeded.sh sets it, so that a run against a seeded change never overwrites evidence)
        evdir = os.environ.get("VERIF_EVIDENCE_DIR") or os.path.join(VERIF, "evidence")
        os.makedirs(evdir, exist_ok=True)
        with open(os.path.join(evdir, self.pid + ".json"), "w") as f:
            json.dump(ev, f, indent=1, default=str)
        sys.stderr.write("[%s %s] obligations=%d held=%d inconclusive=%d cex=%d violations=%d known=%d "
                         "errors=%d wall=%.0fs\n" % (self.pid, self.tier, len(self.conditions), len(held),
                                                     len(inconc), len(cex), len(self.violations),
                                                     len(self.known_printed), len(self.harness_errors),
                                                     time.time() - self.t0))
        if self.violations:
            return EXIT_VIOLATION
        if self.harness_errors:
            return EXIT_HARNESS
        return EXIT_OK


def tmp_workdir(prefix):
    import tempfile
    return tempfile.mkdtemp(prefix=prefix)


def safe(fn, *a, **k):
    try:
        return fn(*a, **k), None
    except Exception as e:  # noqa
        return None, "%s: %s\n%s" % (type(e).__name__, e, traceback.format_exc()[-800:])


def _handle_cc(report, r, nm, fam, cc, replayer, meta):
    """engine cross-validation of a CONFIRMED condition (vlib/concrete_worker.py)"""
    if cc.get("error"):
        report.note("engine cross-validation of %s did not run: %s" % (nm, cc["error"][:300]))
        return
    report.add(nm + "#concrete", "python (untraced harness)", "confirmed" if not cc["n_bad"] else "refuted",
               "engine cross-validation: %d concrete runs of the harness function (%s of a space of %d), %d False" % (
                   cc["runs"], "all admissible tuples" if cc.get("whole_space") else "seeded sample", cc.get("space", 0), cc["n_bad"]),
               cc.get("wall_s", 0), cc["runs"], "engine-validation")
    if not cc["n_bad"] and cc.get("first") is not None and not meta.get("no_replayer_selftest"):
        # stub validation + replayer self-test: on arguments for which the (stubbed) harness function holds, the replay on the
        # REAL code must run through and must not report a violation either - a disagreement means a stub or the replayer
        # misrepresents the code (it would otherwise only show on the day a counterexample needs replaying)
        tuples = [tuple(t) for t in (cc.get("sample") or [cc["first"]])]
        done = 0
        for args in tuples:
            try:
                ok, record = replayer(r["name"], args, {}, meta)
                done += 1
                if ok and not meta.get("known_finding"):
                    msg = "replayer of %s reports a violation for %r although the harness function holds there: %s" % (
                        nm, args, json.dumps(record, default=str)[:400])
                    if known_findings(report.pid)[0]:
                        # the harness function excludes the inputs of the listed known findings (returns True there); the real
                        # code does violate the property on them - that is what the finding says, not a disagreement
                        report.note("stub validation: " + msg + " [property has listed known findings: not counted]")
                    else:
                        report.harness_error(msg)
            except Exception as e:  # noqa
                report.harness_error("replayer self-test of %s%r crashed: %s: %s\n%s" % (
                    nm, args, type(e).__name__, e, traceback.format_exc()[-500:]))
        report.conditions[-1]["detail"] += "; %d of them also replayed on the real code, no disagreement" % done
    reproduced = 0
    for b in cc["bad"][:4]:
        args = tuple(b["args"])
        try:
            ok, record = replayer(r["name"], args, {}, meta)
        except Exception as e:  # noqa
            report.harness_error("replay of concrete run %s%r crashed: %s: %s" % (nm, args, type(e).__name__, e))
            continue
        if ok:
            reproduced += 1
            record = dict(record or {})
            record.setdefault("condition", nm + "#concrete")
            record.setdefault("call", "%s%r" % (r["name"], args))
            record.setdefault("note", "CrossHair CONFIRMED this condition although the harness function is False on these concrete "
                                      "arguments: a modelling defect of the symbolic engine; the violation is real (replayed)")
            if meta.get("known_finding"):
                report.known(meta["known_finding"], record.get("summary", str(args)))
            else:
                report.violation(record.get("summary", str(args)), record)
        else:
            report.harness_error("concrete run %s%r is False (%s) while CrossHair confirmed the condition, and it does not reproduce "
                                 "on the real code" % (nm, args, b.get("why", "")))


def handle_xh(report, results, replayer, family=""):
    """Fold CrossHair results into the report.

    replayer(name, args, kwargs, meta) -> (reproduced: bool, record: dict).  It must run the unpatched
    real code through the public surface.  A refuted condition whose counterexample does not
    reproduce is a harness error (encoding/stub wrong), never a violation.
    meta["known_finding"] = <id>: the condition is the complementary query of a listed finding; a
    reproducing witness prints KNOWN-FINDING instead of VIOLATION.
    """
    from . import xh
    for r in results:
        meta = r.get("meta") or {}
        fam = meta.get("family", family)
        nm = r["name"] + ("@" + meta["variant"] if meta.get("variant") else "")
        if r.get("twin"):
            if r["status"] == "refuted" and r.get("detail") == "POST_FAIL":
                report.add(nm + "#twin", "crosshair", "twin-reached", r["detail"], r.get("cpu_s", 0),
                           r.get("confirmed_paths"), fam)
                report.conditions[-1]["status"] = "reachable"
            else:
                report.add(nm + "#twin", "crosshair", "error",
                           "vacuity: reachability twin not refuted (%s %s %s)" % (
                               r["status"], r.get("detail"), (r.get("message") or "")[:300]),
                           r.get("cpu_s", 0), r.get("confirmed_paths"), fam)
            continue
        if r["status"] == "confirmed":
            report.add(nm, "crosshair", "confirmed", "Confirmed over all paths", r.get("cpu_s", 0),
                       r.get("confirmed_paths"), fam, bound=meta.get("bound", ""))
            if meta.get("known_finding"):
                report.note("known finding %s: complementary query found no witness any more"
                            % meta["known_finding"])
            cc = r.get("cc")
            if cc:
                _handle_cc(report, r, nm, fam, cc, replayer, meta)
        elif r["status"] == "refuted":
            call = r.get("call")
            rec = report.add(nm, "crosshair", "refuted", r.get("message", "")[:400], r.get("cpu_s", 0),
                             r.get("confirmed_paths"), fam, witness=call, bound=meta.get("bound", ""))
            if len(report.violations) >= MAX_REPLAYED_VIOLATIONS and not meta.get("known_finding"):
                # enough violations have been reproduced on the real code to fail the run; further counterexamples are
                # kept in the evidence (status refuted, witness) but not replayed (a real replay can take a minute)
                rec["reproduced"] = None
                rec["detail"] += " [not replayed: %d violations already reproduced]" % len(report.violations)
                continue
            try:
                args, kwargs = xh.parse_call(call, meta.get("eval_globals") or {})
            except Exception as e:  # noqa
                report.harness_error("cannot parse counterexample %r of %s: %s" % (call, nm, e))
                continue
            try:
                ok, record = replayer(r["name"], args, kwargs, meta)
            except Exception as e:  # noqa
                report.harness_error("replay of %s%r crashed: %s: %s\n%s" % (
                    nm, (args, kwargs), type(e).__name__, e, traceback.format_exc()[-600:]))
                continue
            rec["reproduced"] = bool(ok)
            if ok:
                record = dict(record or {})
                record.setdefault("condition", nm)
                record.setdefault("crosshair_message", r.get("message", ""))
                record.setdefault("call", call)
                if meta.get("known_finding"):
                    report.known(meta["known_finding"], record.get("summary", call))
                    rec["status"] = "known-finding"
                else:
                    report.violation(record.get("summary", call), record)
            else:
                report.harness_error(
                    "counterexample of %s did not reproduce on the real code: %s -> %s" % (
                        nm, call, json.dumps(record, default=str)[:500]))
        elif r["status"] == "inconclusive":
            report.add(nm, "crosshair", "inconclusive", "%s %s" % (r.get("detail"), r.get("message", "")[:200]),
                       r.get("cpu_s", 0), r.get("confirmed_paths"), fam, bound=meta.get("bound", ""))
        else:
            report.add(nm, "crosshair", "error", "%s %s" % (r.get("detail"), r.get("message", "")[-600:]),
                       r.get("cpu_s", 0), r.get("confirmed_paths"), fam)
