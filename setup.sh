#!/bin/sh
# Build the overlay venv used by every check: /venv's python + /venv's site-packages (zorg's deps)
# + crosshair-tool / z3-solver / cvc5 / jsonschema from the offline wheelhouse.  Idempotent; offline.
set -e
HERE="$(cd "$(dirname "$0")" && pwd)"
VENV="$HERE/.venv"
WHEELS=/opt/veriftools/wheels
ZORG_SRC="${ZORG_SRC:-/repo/src}"
export PYTHONPATH="$ZORG_SRC"
if [ -x "$VENV/bin/python" ] && "$VENV/bin/python" -c "import crosshair, z3, zorg, antlr4, sqlmodel" 2>/dev/null; then
    exit 0
fi
rm -rf "$VENV"
/venv/bin/python -m venv "$VENV"
SP="$("$VENV/bin/python" -c 'import sysconfig; print(sysconfig.get_paths()["purelib"])')"
# zorg's own dependencies come from /venv (left untouched); zorg itself is read from $ZORG_SRC
# (default /repo/src, the working tree) through PYTHONPATH, set by ./check on every run
printf '%s\n' "/venv/lib/python3.12/site-packages" > "$SP/zz_venv_overlay.pth"
PIP_NO_INDEX=1 "$VENV/bin/python" -m pip install -q --no-index --find-links "$WHEELS" crosshair-tool z3-solver cvc5 jsonschema >/dev/null
"$VENV/bin/python" -c "import crosshair, z3, zorg, antlr4, sqlmodel; print('overlay ok', zorg.__file__)"
