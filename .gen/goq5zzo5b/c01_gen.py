from harness.c01_rt import *  # noqa: F401,F403
from harness.c01_rt import SPECS, N, cm, check_c01

def sk_0(w: str) -> bool:
    """
    pre: cm.P_id(w, 3)
    pre: cm.dates_valid(SPECS[0], {"w": w})
    post: _
    """
    return V(check_c01(0, {"w": w}))


def sk_1(w: int) -> bool:
    """
    pre: 0 <= w < len(cm.ID_MENU)
    pre: cm.dates_valid(SPECS[1], {"w": cm.ID_MENU[w]})
    post: _
    """
    return V(check_c01(1, {"w": cm.ID_MENU[w]}))


def sk_2(w: str) -> bool:
    """
    pre: cm.P_id(w, 3)
    pre: cm.dates_valid(SPECS[2], {"w": w})
    post: _
    """
    return V(check_c01(2, {"w": w}))


def sk_3(w: int) -> bool:
    """
    pre: 0 <= w < len(cm.ID_MENU)
    pre: cm.dates_valid(SPECS[3], {"w": cm.ID_MENU[w]})
    post: _
    """
    return V(check_c01(3, {"w": cm.ID_MENU[w]}))


def sk_4(w: str) -> bool:
    """
    pre: cm.P_id(w, 3)
    pre: cm.dates_valid(SPECS[4], {"w": w})
    post: _
    """
    return V(check_c01(4, {"w": w}))


def sk_5(w: int) -> bool:
    """
    pre: 0 <= w < len(cm.ID_MENU)
    pre: cm.dates_valid(SPECS[5], {"w": cm.ID_MENU[w]})
    post: _
    """
    return V(check_c01(5, {"w": cm.ID_MENU[w]}))


def sk_6(w: str) -> bool:
    """
    pre: cm.P_id(w, 3)
    pre: cm.dates_valid(SPECS[6], {"w": w})
    post: _
    """
    return V(check_c01(6, {"w": w}))


def sk_7(w: int) -> bool:
    """
    pre: 0 <= w < len(cm.ID_MENU)
    pre: cm.dates_valid(SPECS[7], {"w": cm.ID_MENU[w]})
    post: _
    """
    return V(check_c01(7, {"w": cm.ID_MENU[w]}))


def sk_8(w: str) -> bool:
    """
    pre: cm.P_id(w, 3)
    pre: cm.dates_valid(SPECS[8], {"w": w})
    post: _
    """
    return V(check_c01(8, {"w": w}))


def sk_9(w: int) -> bool:
    """
    pre: 0 <= w < len(cm.ID_MENU)
    pre: cm.dates_valid(SPECS[9], {"w": cm.ID_MENU[w]})
    post: _
    """
    return V(check_c01(9, {"w": cm.ID_MENU[w]}))


def sk_10(w: str) -> bool:
    """
    pre: cm.P_id(w, 3)
    pre: cm.dates_valid(SPECS[10], {"w": w})
    post: _
    """
    return V(check_c01(10, {"w": w}))


def sk_11(w: int) -> bool:
    """
    pre: 0 <= w < len(cm.ID_MENU)
    pre: cm.dates_valid(SPECS[11], {"w": cm.ID_MENU[w]})
    post: _
    """
    return V(check_c01(11, {"w": cm.ID_MENU[w]}))


def sk_12(w: str) -> bool:
    """
    pre: cm.P_id(w, 3)
    pre: cm.dates_valid(SPECS[12], {"w": w})
    post: _
    """
    return V(check_c01(12, {"w": w}))


def sk_13(w: int) -> bool:
    """
    pre: 0 <= w < len(cm.ID_MENU)
    pre: cm.dates_valid(SPECS[13], {"w": cm.ID_MENU[w]})
    post: _
    """
    return V(check_c01(13, {"w": cm.ID_MENU[w]}))


def sk_14(w: str) -> bool:
    """
    pre: cm.P_id(w, 3)
    pre: cm.dates_valid(SPECS[14], {"w": w})
    post: _
    """
    return V(check_c01(14, {"w": w}))


def sk_15(w: int) -> bool:
    """
    pre: 0 <= w < len(cm.ID_MENU)
    pre: cm.dates_valid(SPECS[15], {"w": cm.ID_MENU[w]})
    post: _
    """
    return V(check_c01(15, {"w": cm.ID_MENU[w]}))


def sk_16(w: str) -> bool:
    """
    pre: cm.P_id(w, 3)
    pre: cm.dates_valid(SPECS[16], {"w": w})
    post: _
    """
    return V(check_c01(16, {"w": w}))


def sk_17(w: int) -> bool:
    """
    pre: 0 <= w < len(cm.ID_MENU)
    pre: cm.dates_valid(SPECS[17], {"w": cm.ID_MENU[w]})
    post: _
    """
    return V(check_c01(17, {"w": cm.ID_MENU[w]}))


def sk_18(w: str) -> bool:
    """
    pre: cm.P_id(w, 3)
    pre: cm.dates_valid(SPECS[18], {"w": w})
    post: _
    """
    return V(check_c01(18, {"w": w}))


def sk_19(w: int) -> bool:
    """
    pre: 0 <= w < len(cm.ID_MENU)
    pre: cm.dates_valid(SPECS[19], {"w": cm.ID_MENU[w]})
    post: _
    """
    return V(check_c01(19, {"w": cm.ID_MENU[w]}))


def sk_20(p: str, w: str) -> bool:
    """
    pre: len(p) == 1 and p in cm.DIG
    pre: cm.P_id(w, 3)
    pre: cm.dates_valid(SPECS[20], {"p": "P" + p, "w": w})
    post: _
    """
    return V(check_c01(20, {"p": "P" + p, "w": w}))


def sk_21(p: int, w: int) -> bool:
    """
    pre: 0 <= p <= 9
    pre: 0 <= w < len(cm.ID_MENU)
    pre: cm.dates_valid(SPECS[21], {"p": cm.PRI_MENU[p], "w": cm.ID_MENU[w]})
    post: _
    """
    return V(check_c01(21, {"p": cm.PRI_MENU[p], "w": cm.ID_MENU[w]}))


def sk_22(p: str, w: str) -> bool:
    """
    pre: len(p) == 1 and p in cm.DIG
    pre: cm.P_id(w, 3)
    pre: cm.dates_valid(SPECS[22], {"p": "P" + p, "w": w})
    post: _
    """
    return V(check_c01(22, {"p": "P" + p, "w": w}))


def sk_23(p: int, w: int) -> bool:
    """
    pre: 0 <= p <= 9
    pre: 0 <= w < len(cm.ID_MENU)
    pre: cm.dates_valid(SPECS[23], {"p": cm.PRI_MENU[p], "w": cm.ID_MENU[w]})
    post: _
    """
    return V(check_c01(23, {"p": cm.PRI_MENU[p], "w": cm.ID_MENU[w]}))


def sk_24(p: str, w: str) -> bool:
    """
    pre: len(p) == 1 and p in cm.DIG
    pre: cm.P_id(w, 3)
    pre: cm.dates_valid(SPECS[24], {"p": "P" + p, "w": w})
    post: _
    """
    return V(check_c01(24, {"p": "P" + p, "w": w}))


def sk_25(p: int, w: int) -> bool:
    """
    pre: 0 <= p <= 9
    pre: 0 <= w < len(cm.ID_MENU)
    pre: cm.dates_valid(SPECS[25], {"p": cm.PRI_MENU[p], "w": cm.ID_MENU[w]})
    post: _
    """
    return V(check_c01(25, {"p": cm.PRI_MENU[p], "w": cm.ID_MENU[w]}))


def sk_26(p: str, w: str) -> bool:
    """
    pre: len(p) == 1 and p in cm.DIG
    pre: cm.P_id(w, 3)
    pre: cm.dates_valid(SPECS[26], {"p": "P" + p, "w": w})
    post: _
    """
    return V(check_c01(26, {"p": "P" + p, "w": w}))


def sk_27(p: int, w: int) -> bool:
    """
    pre: 0 <= p <= 9
    pre: 0 <= w < len(cm.ID_MENU)
    pre: cm.dates_valid(SPECS[27], {"p": cm.PRI_MENU[p], "w": cm.ID_MENU[w]})
    post: _
    """
    return V(check_c01(27, {"p": cm.PRI_MENU[p], "w": cm.ID_MENU[w]}))


def sk_28(p: str, w: str) -> bool:
    """
    pre: len(p) == 1 and p in cm.DIG
    pre: cm.P_id(w, 3)
    pre: cm.dates_valid(SPECS[28], {"p": "P" + p, "w": w})
    post: _
    """
    return V(check_c01(28, {"p": "P" + p, "w": w}))


def sk_29(p: int, w: int) -> bool:
    """
    pre: 0 <= p <= 9
    pre: 0 <= w < len(cm.ID_MENU)
    pre: cm.dates_valid(SPECS[29], {"p": cm.PRI_MENU[p], "w": cm.ID_MENU[w]})
    post: _
    """
    return V(check_c01(29, {"p": cm.PRI_MENU[p], "w": cm.ID_MENU[w]}))


def sk_30(w: str) -> bool:
    """
    pre: cm.P_id(w, 3)
    pre: cm.dates_valid(SPECS[30], {"w": w})
    post: _
    """
    return V(check_c01(30, {"w": w}))


def sk_31(w: int) -> bool:
    """
    pre: 0 <= w < len(cm.ID_MENU)
    pre: cm.dates_valid(SPECS[31], {"w": cm.ID_MENU[w]})
    post: _
    """
    return V(check_c01(31, {"w": cm.ID_MENU[w]}))


def sk_32(w: str) -> bool:
    """
    pre: cm.P_id(w, 3)
    pre: cm.dates_valid(SPECS[32], {"w": w})
    post: _
    """
    return V(check_c01(32, {"w": w}))


def sk_33(w: int) -> bool:
    """
    pre: 0 <= w < len(cm.ID_MENU)
    pre: cm.dates_valid(SPECS[33], {"w": cm.ID_MENU[w]})
    post: _
    """
    return V(check_c01(33, {"w": cm.ID_MENU[w]}))


def sk_34(w: str) -> bool:
    """
    pre: cm.P_id(w, 3)
    pre: cm.dates_valid(SPECS[34], {"w": w})
    post: _
    """
    return V(check_c01(34, {"w": w}))


def sk_35(w: int) -> bool:
    """
    pre: 0 <= w < len(cm.ID_MENU)
    pre: cm.dates_valid(SPECS[35], {"w": cm.ID_MENU[w]})
    post: _
    """
    return V(check_c01(35, {"w": cm.ID_MENU[w]}))


def sk_36(w: str) -> bool:
    """
    pre: cm.P_id(w, 3)
    pre: cm.dates_valid(SPECS[36], {"w": w})
    post: _
    """
    return V(check_c01(36, {"w": w}))


def sk_37(w: int) -> bool:
    """
    pre: 0 <= w < len(cm.ID_MENU)
    pre: cm.dates_valid(SPECS[37], {"w": cm.ID_MENU[w]})
    post: _
    """
    return V(check_c01(37, {"w": cm.ID_MENU[w]}))


def sk_38(w: str) -> bool:
    """
    pre: cm.P_id(w, 3)
    pre: cm.dates_valid(SPECS[38], {"w": w})
    post: _
    """
    return V(check_c01(38, {"w": w}))


def sk_39(w: int) -> bool:
    """
    pre: 0 <= w < len(cm.ID_MENU)
    pre: cm.dates_valid(SPECS[39], {"w": cm.ID_MENU[w]})
    post: _
    """
    return V(check_c01(39, {"w": cm.ID_MENU[w]}))


def sk_40(p: str, w: str) -> bool:
    """
    pre: len(p) == 1 and p in cm.DIG
    pre: cm.P_id(w, 3)
    pre: cm.dates_valid(SPECS[40], {"p": "P" + p, "w": w})
    post: _
    """
    return V(check_c01(40, {"p": "P" + p, "w": w}))


def sk_41(p: int, w: int) -> bool:
    """
    pre: 0 <= p <= 9
    pre: 0 <= w < len(cm.ID_MENU)
    pre: cm.dates_valid(SPECS[41], {"p": cm.PRI_MENU[p], "w": cm.ID_MENU[w]})
    post: _
    """
    return V(check_c01(41, {"p": cm.PRI_MENU[p], "w": cm.ID_MENU[w]}))


def sk_42(p: str, w: str) -> bool:
    """
    pre: len(p) == 1 and p in cm.DIG
    pre: cm.P_id(w, 3)
    pre: cm.dates_valid(SPECS[42], {"p": "P" + p, "w": w})
    post: _
    """
    return V(check_c01(42, {"p": "P" + p, "w": w}))


def sk_43(p: int, w: int) -> bool:
    """
    pre: 0 <= p <= 9
    pre: 0 <= w < len(cm.ID_MENU)
    pre: cm.dates_valid(SPECS[43], {"p": cm.PRI_MENU[p], "w": cm.ID_MENU[w]})
    post: _
    """
    return V(check_c01(43, {"p": cm.PRI_MENU[p], "w": cm.ID_MENU[w]}))


def sk_44(p: str, w: str) -> bool:
    """
    pre: len(p) == 1 and p in cm.DIG
    pre: cm.P_id(w, 3)
    pre: cm.dates_valid(SPECS[44], {"p": "P" + p, "w": w})
    post: _
    """
    return V(check_c01(44, {"p": "P" + p, "w": w}))


def sk_45(p: int, w: int) -> bool:
    """
    pre: 0 <= p <= 9
    pre: 0 <= w < len(cm.ID_MENU)
    pre: cm.dates_valid(SPECS[45], {"p": cm.PRI_MENU[p], "w": cm.ID_MENU[w]})
    post: _
    """
    return V(check_c01(45, {"p": cm.PRI_MENU[p], "w": cm.ID_MENU[w]}))


def sk_46(p: str, w: str) -> bool:
    """
    pre: len(p) == 1 and p in cm.DIG
    pre: cm.P_id(w, 3)
    pre: cm.dates_valid(SPECS[46], {"p": "P" + p, "w": w})
    post: _
    """
    return V(check_c01(46, {"p": "P" + p, "w": w}))


def sk_47(p: int, w: int) -> bool:
    """
    pre: 0 <= p <= 9
    pre: 0 <= w < len(cm.ID_MENU)
    pre: cm.dates_valid(SPECS[47], {"p": cm.PRI_MENU[p], "w": cm.ID_MENU[w]})
    post: _
    """
    return V(check_c01(47, {"p": cm.PRI_MENU[p], "w": cm.ID_MENU[w]}))


def sk_48(p: str, w: str) -> bool:
    """
    pre: len(p) == 1 and p in cm.DIG
    pre: cm.P_id(w, 3)
    pre: cm.dates_valid(SPECS[48], {"p": "P" + p, "w": w})
    post: _
    """
    return V(check_c01(48, {"p": "P" + p, "w": w}))


def sk_49(p: int, w: int) -> bool:
    """
    pre: 0 <= p <= 9
    pre: 0 <= w < len(cm.ID_MENU)
    pre: cm.dates_valid(SPECS[49], {"p": cm.PRI_MENU[p], "w": cm.ID_MENU[w]})
    post: _
    """
    return V(check_c01(49, {"p": cm.PRI_MENU[p], "w": cm.ID_MENU[w]}))


def sk_50(w: str) -> bool:
    """
    pre: cm.P_id(w, 3)
    pre: cm.dates_valid(SPECS[50], {"w": w})
    post: _
    """
    return V(check_c01(50, {"w": w}))


def sk_51(w: int) -> bool:
    """
    pre: 0 <= w < len(cm.ID_MENU)
    pre: cm.dates_valid(SPECS[51], {"w": cm.ID_MENU[w]})
    post: _
    """
    return V(check_c01(51, {"w": cm.ID_MENU[w]}))


def sk_52(w: str) -> bool:
    """
    pre: cm.P_id(w, 3)
    pre: cm.dates_valid(SPECS[52], {"w": w})
    post: _
    """
    return V(check_c01(52, {"w": w}))


def sk_53(w: int) -> bool:
    """
    pre: 0 <= w < len(cm.ID_MENU)
    pre: cm.dates_valid(SPECS[53], {"w": cm.ID_MENU[w]})
    post: _
    """
    return V(check_c01(53, {"w": cm.ID_MENU[w]}))


def sk_54(w: str) -> bool:
    """
    pre: cm.P_id(w, 3)
    pre: cm.dates_valid(SPECS[54], {"w": w})
    post: _
    """
    return V(check_c01(54, {"w": w}))


def sk_55(w: int) -> bool:
    """
    pre: 0 <= w < len(cm.ID_MENU)
    pre: cm.dates_valid(SPECS[55], {"w": cm.ID_MENU[w]})
    post: _
    """
    return V(check_c01(55, {"w": cm.ID_MENU[w]}))


def sk_56(w: str) -> bool:
    """
    pre: cm.P_id(w, 3)
    pre: cm.dates_valid(SPECS[56], {"w": w})
    post: _
    """
    return V(check_c01(56, {"w": w}))


def sk_57(w: int) -> bool:
    """
    pre: 0 <= w < len(cm.ID_MENU)
    pre: cm.dates_valid(SPECS[57], {"w": cm.ID_MENU[w]})
    post: _
    """
    return V(check_c01(57, {"w": cm.ID_MENU[w]}))


def sk_58(w: str) -> bool:
    """
    pre: cm.P_id(w, 3)
    pre: cm.dates_valid(SPECS[58], {"w": w})
    post: _
    """
    return V(check_c01(58, {"w": w}))


def sk_59(w: int) -> bool:
    """
    pre: 0 <= w < len(cm.ID_MENU)
    pre: cm.dates_valid(SPECS[59], {"w": cm.ID_MENU[w]})
    post: _
    """
    return V(check_c01(59, {"w": cm.ID_MENU[w]}))


def sk_60(p: str, w: str) -> bool:
    """
    pre: len(p) == 1 and p in cm.DIG
    pre: cm.P_id(w, 3)
    pre: cm.dates_valid(SPECS[60], {"p": "P" + p, "w": w})
    post: _
    """
    return V(check_c01(60, {"p": "P" + p, "w": w}))


def sk_61(p: int, w: int) -> bool:
    """
    pre: 0 <= p <= 9
    pre: 0 <= w < len(cm.ID_MENU)
    pre: cm.dates_valid(SPECS[61], {"p": cm.PRI_MENU[p], "w": cm.ID_MENU[w]})
    post: _
    """
    return V(check_c01(61, {"p": cm.PRI_MENU[p], "w": cm.ID_MENU[w]}))


def sk_62(p: str, w: str) -> bool:
    """
    pre: len(p) == 1 and p in cm.DIG
    pre: cm.P_id(w, 3)
    pre: cm.dates_valid(SPECS[62], {"p": "P" + p, "w": w})
    post: _
    """
    return V(check_c01(62, {"p": "P" + p, "w": w}))


def sk_63(p: int, w: int) -> bool:
    """
    pre: 0 <= p <= 9
    pre: 0 <= w < len(cm.ID_MENU)
    pre: cm.dates_valid(SPECS[63], {"p": cm.PRI_MENU[p], "w": cm.ID_MENU[w]})
    post: _
    """
    return V(check_c01(63, {"p": cm.PRI_MENU[p], "w": cm.ID_MENU[w]}))


def sk_64(p: str, w: str) -> bool:
    """
    pre: len(p) == 1 and p in cm.DIG
    pre: cm.P_id(w, 3)
    pre: cm.dates_valid(SPECS[64], {"p": "P" + p, "w": w})
    post: _
    """
    return V(check_c01(64, {"p": "P" + p, "w": w}))


def sk_65(p: int, w: int) -> bool:
    """
    pre: 0 <= p <= 9
    pre: 0 <= w < len(cm.ID_MENU)
    pre: cm.dates_valid(SPECS[65], {"p": cm.PRI_MENU[p], "w": cm.ID_MENU[w]})
    post: _
    """
    return V(check_c01(65, {"p": cm.PRI_MENU[p], "w": cm.ID_MENU[w]}))


def sk_66(p: str, w: str) -> bool:
    """
    pre: len(p) == 1 and p in cm.DIG
    pre: cm.P_id(w, 3)
    pre: cm.dates_valid(SPECS[66], {"p": "P" + p, "w": w})
    post: _
    """
    return V(check_c01(66, {"p": "P" + p, "w": w}))


def sk_67(p: int, w: int) -> bool:
    """
    pre: 0 <= p <= 9
    pre: 0 <= w < len(cm.ID_MENU)
    pre: cm.dates_valid(SPECS[67], {"p": cm.PRI_MENU[p], "w": cm.ID_MENU[w]})
    post: _
    """
    return V(check_c01(67, {"p": cm.PRI_MENU[p], "w": cm.ID_MENU[w]}))


def sk_68(p: str, w: str) -> bool:
    """
    pre: len(p) == 1 and p in cm.DIG
    pre: cm.P_id(w, 3)
    pre: cm.dates_valid(SPECS[68], {"p": "P" + p, "w": w})
    post: _
    """
    return V(check_c01(68, {"p": "P" + p, "w": w}))


def sk_69(p: int, w: int) -> bool:
    """
    pre: 0 <= p <= 9
    pre: 0 <= w < len(cm.ID_MENU)
    pre: cm.dates_valid(SPECS[69], {"p": cm.PRI_MENU[p], "w": cm.ID_MENU[w]})
    post: _
    """
    return V(check_c01(69, {"p": cm.PRI_MENU[p], "w": cm.ID_MENU[w]}))


def sk_70(w: str) -> bool:
    """
    pre: cm.P_id(w, 3)
    pre: cm.dates_valid(SPECS[70], {"w": w})
    post: _
    """
    return V(check_c01(70, {"w": w}))


def sk_71(w: int) -> bool:
    """
    pre: 0 <= w < len(cm.ID_MENU)
    pre: cm.dates_valid(SPECS[71], {"w": cm.ID_MENU[w]})
    post: _
    """
    return V(check_c01(71, {"w": cm.ID_MENU[w]}))


def sk_72(w: str) -> bool:
    """
    pre: cm.P_id(w, 3)
    pre: cm.dates_valid(SPECS[72], {"w": w})
    post: _
    """
    return V(check_c01(72, {"w": w}))


def sk_73(w: int) -> bool:
    """
    pre: 0 <= w < len(cm.ID_MENU)
    pre: cm.dates_valid(SPECS[73], {"w": cm.ID_MENU[w]})
    post: _
    """
    return V(check_c01(73, {"w": cm.ID_MENU[w]}))


def sk_74(w: str) -> bool:
    """
    pre: cm.P_id(w, 3)
    pre: cm.dates_valid(SPECS[74], {"w": w})
    post: _
    """
    return V(check_c01(74, {"w": w}))


def sk_75(w: int) -> bool:
    """
    pre: 0 <= w < len(cm.ID_MENU)
    pre: cm.dates_valid(SPECS[75], {"w": cm.ID_MENU[w]})
    post: _
    """
    return V(check_c01(75, {"w": cm.ID_MENU[w]}))


def sk_76(w: str) -> bool:
    """
    pre: cm.P_id(w, 3)
    pre: cm.dates_valid(SPECS[76], {"w": w})
    post: _
    """
    return V(check_c01(76, {"w": w}))


def sk_77(w: int) -> bool:
    """
    pre: 0 <= w < len(cm.ID_MENU)
    pre: cm.dates_valid(SPECS[77], {"w": cm.ID_MENU[w]})
    post: _
    """
    return V(check_c01(77, {"w": cm.ID_MENU[w]}))


def sk_78(w: str) -> bool:
    """
    pre: cm.P_id(w, 3)
    pre: cm.dates_valid(SPECS[78], {"w": w})
    post: _
    """
    return V(check_c01(78, {"w": w}))


def sk_79(w: int) -> bool:
    """
    pre: 0 <= w < len(cm.ID_MENU)
    pre: cm.dates_valid(SPECS[79], {"w": cm.ID_MENU[w]})
    post: _
    """
    return V(check_c01(79, {"w": cm.ID_MENU[w]}))


def sk_80(p: str, w: str) -> bool:
    """
    pre: len(p) == 1 and p in cm.DIG
    pre: cm.P_id(w, 3)
    pre: cm.dates_valid(SPECS[80], {"p": "P" + p, "w": w})
    post: _
    """
    return V(check_c01(80, {"p": "P" + p, "w": w}))


def sk_81(p: int, w: int) -> bool:
    """
    pre: 0 <= p <= 9
    pre: 0 <= w < len(cm.ID_MENU)
    pre: cm.dates_valid(SPECS[81], {"p": cm.PRI_MENU[p], "w": cm.ID_MENU[w]})
    post: _
    """
    return V(check_c01(81, {"p": cm.PRI_MENU[p], "w": cm.ID_MENU[w]}))


def sk_82(p: str, w: str) -> bool:
    """
    pre: len(p) == 1 and p in cm.DIG
    pre: cm.P_id(w, 3)
    pre: cm.dates_valid(SPECS[82], {"p": "P" + p, "w": w})
    post: _
    """
    return V(check_c01(82, {"p": "P" + p, "w": w}))


def sk_83(p: int, w: int) -> bool:
    """
    pre: 0 <= p <= 9
    pre: 0 <= w < len(cm.ID_MENU)
    pre: cm.dates_valid(SPECS[83], {"p": cm.PRI_MENU[p], "w": cm.ID_MENU[w]})
    post: _
    """
    return V(check_c01(83, {"p": cm.PRI_MENU[p], "w": cm.ID_MENU[w]}))


def sk_84(p: str, w: str) -> bool:
    """
    pre: len(p) == 1 and p in cm.DIG
    pre: cm.P_id(w, 3)
    pre: cm.dates_valid(SPECS[84], {"p": "P" + p, "w": w})
    post: _
    """
    return V(check_c01(84, {"p": "P" + p, "w": w}))


def sk_85(p: int, w: int) -> bool:
    """
    pre: 0 <= p <= 9
    pre: 0 <= w < len(cm.ID_MENU)
    pre: cm.dates_valid(SPECS[85], {"p": cm.PRI_MENU[p], "w": cm.ID_MENU[w]})
    post: _
    """
    return V(check_c01(85, {"p": cm.PRI_MENU[p], "w": cm.ID_MENU[w]}))


def sk_86(p: str, w: str) -> bool:
    """
    pre: len(p) == 1 and p in cm.DIG
    pre: cm.P_id(w, 3)
    pre: cm.dates_valid(SPECS[86], {"p": "P" + p, "w": w})
    post: _
    """
    return V(check_c01(86, {"p": "P" + p, "w": w}))


def sk_87(p: int, w: int) -> bool:
    """
    pre: 0 <= p <= 9
    pre: 0 <= w < len(cm.ID_MENU)
    pre: cm.dates_valid(SPECS[87], {"p": cm.PRI_MENU[p], "w": cm.ID_MENU[w]})
    post: _
    """
    return V(check_c01(87, {"p": cm.PRI_MENU[p], "w": cm.ID_MENU[w]}))


def sk_88(p: str, w: str) -> bool:
    """
    pre: len(p) == 1 and p in cm.DIG
    pre: cm.P_id(w, 3)
    pre: cm.dates_valid(SPECS[88], {"p": "P" + p, "w": w})
    post: _
    """
    return V(check_c01(88, {"p": "P" + p, "w": w}))


def sk_89(p: int, w: int) -> bool:
    """
    pre: 0 <= p <= 9
    pre: 0 <= w < len(cm.ID_MENU)
    pre: cm.dates_valid(SPECS[89], {"p": cm.PRI_MENU[p], "w": cm.ID_MENU[w]})
    post: _
    """
    return V(check_c01(89, {"p": cm.PRI_MENU[p], "w": cm.ID_MENU[w]}))


def sk_90(w: str) -> bool:
    """
    pre: cm.P_id(w, 3)
    pre: cm.dates_valid(SPECS[90], {"w": w})
    post: _
    """
    return V(check_c01(90, {"w": w}))


def sk_91(w: int) -> bool:
    """
    pre: 0 <= w < len(cm.ID_MENU)
    pre: cm.dates_valid(SPECS[91], {"w": cm.ID_MENU[w]})
    post: _
    """
    return V(check_c01(91, {"w": cm.ID_MENU[w]}))


def sk_92(w: str) -> bool:
    """
    pre: cm.P_id(w, 3)
    pre: cm.dates_valid(SPECS[92], {"w": w})
    post: _
    """
    return V(check_c01(92, {"w": w}))


def sk_93(w: int) -> bool:
    """
    pre: 0 <= w < len(cm.ID_MENU)
    pre: cm.dates_valid(SPECS[93], {"w": cm.ID_MENU[w]})
    post: _
    """
    return V(check_c01(93, {"w": cm.ID_MENU[w]}))


def sk_94(w: str) -> bool:
    """
    pre: cm.P_id(w, 3)
    pre: cm.dates_valid(SPECS[94], {"w": w})
    post: _
    """
    return V(check_c01(94, {"w": w}))


def sk_95(w: int) -> bool:
    """
    pre: 0 <= w < len(cm.ID_MENU)
    pre: cm.dates_valid(SPECS[95], {"w": cm.ID_MENU[w]})
    post: _
    """
    return V(check_c01(95, {"w": cm.ID_MENU[w]}))


def sk_96(w: str) -> bool:
    """
    pre: cm.P_id(w, 3)
    pre: cm.dates_valid(SPECS[96], {"w": w})
    post: _
    """
    return V(check_c01(96, {"w": w}))


def sk_97(w: int) -> bool:
    """
    pre: 0 <= w < len(cm.ID_MENU)
    pre: cm.dates_valid(SPECS[97], {"w": cm.ID_MENU[w]})
    post: _
    """
    return V(check_c01(97, {"w": cm.ID_MENU[w]}))


def sk_98(w: str) -> bool:
    """
    pre: cm.P_id(w, 3)
    pre: cm.dates_valid(SPECS[98], {"w": w})
    post: _
    """
    return V(check_c01(98, {"w": w}))


def sk_99(w: int) -> bool:
    """
    pre: 0 <= w < len(cm.ID_MENU)
    pre: cm.dates_valid(SPECS[99], {"w": cm.ID_MENU[w]})
    post: _
    """
    return V(check_c01(99, {"w": cm.ID_MENU[w]}))


def sk_100(p: str, w: str) -> bool:
    """
    pre: len(p) == 1 and p in cm.DIG
    pre: cm.P_id(w, 3)
    pre: cm.dates_valid(SPECS[100], {"p": "P" + p, "w": w})
    post: _
    """
    return V(check_c01(100, {"p": "P" + p, "w": w}))


def sk_101(p: int, w: int) -> bool:
    """
    pre: 0 <= p <= 9
    pre: 0 <= w < len(cm.ID_MENU)
    pre: cm.dates_valid(SPECS[101], {"p": cm.PRI_MENU[p], "w": cm.ID_MENU[w]})
    post: _
    """
    return V(check_c01(101, {"p": cm.PRI_MENU[p], "w": cm.ID_MENU[w]}))


def sk_102(p: str, w: str) -> bool:
    """
    pre: len(p) == 1 and p in cm.DIG
    pre: cm.P_id(w, 3)
    pre: cm.dates_valid(SPECS[102], {"p": "P" + p, "w": w})
    post: _
    """
    return V(check_c01(102, {"p": "P" + p, "w": w}))


def sk_103(p: int, w: int) -> bool:
    """
    pre: 0 <= p <= 9
    pre: 0 <= w < len(cm.ID_MENU)
    pre: cm.dates_valid(SPECS[103], {"p": cm.PRI_MENU[p], "w": cm.ID_MENU[w]})
    post: _
    """
    return V(check_c01(103, {"p": cm.PRI_MENU[p], "w": cm.ID_MENU[w]}))


def sk_104(p: str, w: str) -> bool:
    """
    pre: len(p) == 1 and p in cm.DIG
    pre: cm.P_id(w, 3)
    pre: cm.dates_valid(SPECS[104], {"p": "P" + p, "w": w})
    post: _
    """
    return V(check_c01(104, {"p": "P" + p, "w": w}))


def sk_105(p: int, w: int) -> bool:
    """
    pre: 0 <= p <= 9
    pre: 0 <= w < len(cm.ID_MENU)
    pre: cm.dates_valid(SPECS[105], {"p": cm.PRI_MENU[p], "w": cm.ID_MENU[w]})
    post: _
    """
    return V(check_c01(105, {"p": cm.PRI_MENU[p], "w": cm.ID_MENU[w]}))


def sk_106(p: str, w: str) -> bool:
    """
    pre: len(p) == 1 and p in cm.DIG
    pre: cm.P_id(w, 3)
    pre: cm.dates_valid(SPECS[106], {"p": "P" + p, "w": w})
    post: _
    """
    return V(check_c01(106, {"p": "P" + p, "w": w}))


def sk_107(p: int, w: int) -> bool:
    """
    pre: 0 <= p <= 9
    pre: 0 <= w < len(cm.ID_MENU)
    pre: cm.dates_valid(SPECS[107], {"p": cm.PRI_MENU[p], "w": cm.ID_MENU[w]})
    post: _
    """
    return V(check_c01(107, {"p": cm.PRI_MENU[p], "w": cm.ID_MENU[w]}))


def sk_108(p: str, w: str) -> bool:
    """
    pre: len(p) == 1 and p in cm.DIG
    pre: cm.P_id(w, 3)
    pre: cm.dates_valid(SPECS[108], {"p": "P" + p, "w": w})
    post: _
    """
    return V(check_c01(108, {"p": "P" + p, "w": w}))


def sk_109(p: int, w: int) -> bool:
    """
    pre: 0 <= p <= 9
    pre: 0 <= w < len(cm.ID_MENU)
    pre: cm.dates_valid(SPECS[109], {"p": cm.PRI_MENU[p], "w": cm.ID_MENU[w]})
    post: _
    """
    return V(check_c01(109, {"p": cm.PRI_MENU[p], "w": cm.ID_MENU[w]}))


def sk_110(zm1: str, zm2: str, zthree: bool) -> bool:
    """
    pre: len(zm1) == 1 and len(zm2) == 1
    pre: zm1 in "01" and zm2 in cm.DIG
    pre: cm.dates_valid(SPECS[110], {"z": "24" + zm1 + zm2 + "10" + ("#0Rx" if zthree else "#0R")})
    post: _
    """
    return V(check_c01(110, {"z": "24" + zm1 + zm2 + "10" + ("#0Rx" if zthree else "#0R")}))


def sk_111(dm1: str, dm2: str) -> bool:
    """
    pre: len(dm1) == 1 and len(dm2) == 1
    pre: dm1 in cm.DIG and dm2 in cm.DIG
    pre: cm.dates_valid(SPECS[111], {"d": "24" + dm1 + dm2 + "10"})
    post: _
    """
    return V(check_c01(111, {"d": "24" + dm1 + dm2 + "10"}))


def sk_112(zm1: str, zm2: str, zthree: bool) -> bool:
    """
    pre: len(zm1) == 1 and len(zm2) == 1
    pre: zm1 in "01" and zm2 in cm.DIG
    pre: cm.dates_valid(SPECS[112], {"z": "24" + zm1 + zm2 + "10" + ("#0Rx" if zthree else "#0R")})
    post: _
    """
    return V(check_c01(112, {"z": "24" + zm1 + zm2 + "10" + ("#0Rx" if zthree else "#0R")}))


def sk_113(dm1: str, dm2: str) -> bool:
    """
    pre: len(dm1) == 1 and len(dm2) == 1
    pre: dm1 in cm.DIG and dm2 in cm.DIG
    pre: cm.dates_valid(SPECS[113], {"d": "24" + dm1 + dm2 + "10"})
    post: _
    """
    return V(check_c01(113, {"d": "24" + dm1 + dm2 + "10"}))


def sk_114(lm1: str, lm2: str) -> bool:
    """
    pre: len(lm1) == 1 and len(lm2) == 1
    pre: lm1 in "01" and lm2 in cm.DIG
    pre: cm.dates_valid(SPECS[114], {"l": "20" + "24" + "-" + lm1 + lm2 + "-" + "10"})
    post: _
    """
    return V(check_c01(114, {"l": "20" + "24" + "-" + lm1 + lm2 + "-" + "10"}))


def sk_115(zd1: str, zd2: str, zy: str, zthree: bool) -> bool:
    """
    pre: len(zd1) == 1 and len(zd2) == 1 and len(zy) == 1
    pre: zd1 in "0123" and zd2 in cm.DIG and zy in "34"
    pre: cm.dates_valid(SPECS[115], {"z": "2" + zy + "02" + zd1 + zd2 + ("#0Rx" if zthree else "#0R")})
    post: _
    """
    return V(check_c01(115, {"z": "2" + zy + "02" + zd1 + zd2 + ("#0Rx" if zthree else "#0R")}))


def sk_116(dd1: str, dd2: str, dy: str) -> bool:
    """
    pre: len(dd1) == 1 and len(dd2) == 1 and len(dy) == 1
    pre: dd1 in cm.DIG and dd2 in cm.DIG and dy in "34"
    pre: cm.dates_valid(SPECS[116], {"d": "2" + dy + "02" + dd1 + dd2})
    post: _
    """
    return V(check_c01(116, {"d": "2" + dy + "02" + dd1 + dd2}))


def sk_117(zd1: str, zd2: str, zy: str, zthree: bool) -> bool:
    """
    pre: len(zd1) == 1 and len(zd2) == 1 and len(zy) == 1
    pre: zd1 in "0123" and zd2 in cm.DIG and zy in "34"
    pre: cm.dates_valid(SPECS[117], {"z": "2" + zy + "02" + zd1 + zd2 + ("#0Rx" if zthree else "#0R")})
    post: _
    """
    return V(check_c01(117, {"z": "2" + zy + "02" + zd1 + zd2 + ("#0Rx" if zthree else "#0R")}))


def sk_118(dd1: str, dd2: str, dy: str) -> bool:
    """
    pre: len(dd1) == 1 and len(dd2) == 1 and len(dy) == 1
    pre: dd1 in cm.DIG and dd2 in cm.DIG and dy in "34"
    pre: cm.dates_valid(SPECS[118], {"d": "2" + dy + "02" + dd1 + dd2})
    post: _
    """
    return V(check_c01(118, {"d": "2" + dy + "02" + dd1 + dd2}))


def sk_119(ld1: str, ld2: str, ly: str) -> bool:
    """
    pre: len(ld1) == 1 and len(ld2) == 1 and len(ly) == 1
    pre: ld1 in "0123" and ld2 in cm.DIG and ly in "34"
    pre: cm.dates_valid(SPECS[119], {"l": "20" + "2" + ly + "-" + "02" + "-" + ld1 + ld2})
    post: _
    """
    return V(check_c01(119, {"l": "20" + "2" + ly + "-" + "02" + "-" + ld1 + ld2}))


def sk_120(zm1: str, zm2: str, zthree: bool) -> bool:
    """
    pre: len(zm1) == 1 and len(zm2) == 1
    pre: zm1 in "01" and zm2 in cm.DIG
    pre: cm.dates_valid(SPECS[120], {"z": "24" + zm1 + zm2 + "10" + ("#0Rx" if zthree else "#0R")})
    post: _
    """
    return V(check_c01(120, {"z": "24" + zm1 + zm2 + "10" + ("#0Rx" if zthree else "#0R")}))


def sk_121(dm1: str, dm2: str) -> bool:
    """
    pre: len(dm1) == 1 and len(dm2) == 1
    pre: dm1 in cm.DIG and dm2 in cm.DIG
    pre: cm.dates_valid(SPECS[121], {"d": "24" + dm1 + dm2 + "10"})
    post: _
    """
    return V(check_c01(121, {"d": "24" + dm1 + dm2 + "10"}))


def sk_122(zm1: str, zm2: str, zthree: bool) -> bool:
    """
    pre: len(zm1) == 1 and len(zm2) == 1
    pre: zm1 in "01" and zm2 in cm.DIG
    pre: cm.dates_valid(SPECS[122], {"z": "24" + zm1 + zm2 + "10" + ("#0Rx" if zthree else "#0R")})
    post: _
    """
    return V(check_c01(122, {"z": "24" + zm1 + zm2 + "10" + ("#0Rx" if zthree else "#0R")}))


def sk_123(dm1: str, dm2: str) -> bool:
    """
    pre: len(dm1) == 1 and len(dm2) == 1
    pre: dm1 in cm.DIG and dm2 in cm.DIG
    pre: cm.dates_valid(SPECS[123], {"d": "24" + dm1 + dm2 + "10"})
    post: _
    """
    return V(check_c01(123, {"d": "24" + dm1 + dm2 + "10"}))


def sk_124(lm1: str, lm2: str) -> bool:
    """
    pre: len(lm1) == 1 and len(lm2) == 1
    pre: lm1 in "01" and lm2 in cm.DIG
    pre: cm.dates_valid(SPECS[124], {"l": "20" + "24" + "-" + lm1 + lm2 + "-" + "10"})
    post: _
    """
    return V(check_c01(124, {"l": "20" + "24" + "-" + lm1 + lm2 + "-" + "10"}))


def sk_125(zd1: str, zd2: str, zy: str, zthree: bool) -> bool:
    """
    pre: len(zd1) == 1 and len(zd2) == 1 and len(zy) == 1
    pre: zd1 in "0123" and zd2 in cm.DIG and zy in "34"
    pre: cm.dates_valid(SPECS[125], {"z": "2" + zy + "02" + zd1 + zd2 + ("#0Rx" if zthree else "#0R")})
    post: _
    """
    return V(check_c01(125, {"z": "2" + zy + "02" + zd1 + zd2 + ("#0Rx" if zthree else "#0R")}))


def sk_126(dd1: str, dd2: str, dy: str) -> bool:
    """
    pre: len(dd1) == 1 and len(dd2) == 1 and len(dy) == 1
    pre: dd1 in cm.DIG and dd2 in cm.DIG and dy in "34"
    pre: cm.dates_valid(SPECS[126], {"d": "2" + dy + "02" + dd1 + dd2})
    post: _
    """
    return V(check_c01(126, {"d": "2" + dy + "02" + dd1 + dd2}))


def sk_127(zd1: str, zd2: str, zy: str, zthree: bool) -> bool:
    """
    pre: len(zd1) == 1 and len(zd2) == 1 and len(zy) == 1
    pre: zd1 in "0123" and zd2 in cm.DIG and zy in "34"
    pre: cm.dates_valid(SPECS[127], {"z": "2" + zy + "02" + zd1 + zd2 + ("#0Rx" if zthree else "#0R")})
    post: _
    """
    return V(check_c01(127, {"z": "2" + zy + "02" + zd1 + zd2 + ("#0Rx" if zthree else "#0R")}))


def sk_128(dd1: str, dd2: str, dy: str) -> bool:
    """
    pre: len(dd1) == 1 and len(dd2) == 1 and len(dy) == 1
    pre: dd1 in cm.DIG and dd2 in cm.DIG and dy in "34"
    pre: cm.dates_valid(SPECS[128], {"d": "2" + dy + "02" + dd1 + dd2})
    post: _
    """
    return V(check_c01(128, {"d": "2" + dy + "02" + dd1 + dd2}))


def sk_129(ld1: str, ld2: str, ly: str) -> bool:
    """
    pre: len(ld1) == 1 and len(ld2) == 1 and len(ly) == 1
    pre: ld1 in "0123" and ld2 in cm.DIG and ly in "34"
    pre: cm.dates_valid(SPECS[129], {"l": "20" + "2" + ly + "-" + "02" + "-" + ld1 + ld2})
    post: _
    """
    return V(check_c01(129, {"l": "20" + "2" + ly + "-" + "02" + "-" + ld1 + ld2}))


def sk_130(zm1: str, zm2: str, zthree: bool) -> bool:
    """
    pre: len(zm1) == 1 and len(zm2) == 1
    pre: zm1 in "01" and zm2 in cm.DIG
    pre: cm.dates_valid(SPECS[130], {"z": "24" + zm1 + zm2 + "10" + ("#0Rx" if zthree else "#0R")})
    post: _
    """
    return V(check_c01(130, {"z": "24" + zm1 + zm2 + "10" + ("#0Rx" if zthree else "#0R")}))


def sk_131(dm1: str, dm2: str) -> bool:
    """
    pre: len(dm1) == 1 and len(dm2) == 1
    pre: dm1 in cm.DIG and dm2 in cm.DIG
    pre: cm.dates_valid(SPECS[131], {"d": "24" + dm1 + dm2 + "10"})
    post: _
    """
    return V(check_c01(131, {"d": "24" + dm1 + dm2 + "10"}))


def sk_132(zm1: str, zm2: str, zthree: bool) -> bool:
    """
    pre: len(zm1) == 1 and len(zm2) == 1
    pre: zm1 in "01" and zm2 in cm.DIG
    pre: cm.dates_valid(SPECS[132], {"z": "24" + zm1 + zm2 + "10" + ("#0Rx" if zthree else "#0R")})
    post: _
    """
    return V(check_c01(132, {"z": "24" + zm1 + zm2 + "10" + ("#0Rx" if zthree else "#0R")}))


def sk_133(dm1: str, dm2: str) -> bool:
    """
    pre: len(dm1) == 1 and len(dm2) == 1
    pre: dm1 in cm.DIG and dm2 in cm.DIG
    pre: cm.dates_valid(SPECS[133], {"d": "24" + dm1 + dm2 + "10"})
    post: _
    """
    return V(check_c01(133, {"d": "24" + dm1 + dm2 + "10"}))


def sk_134(lm1: str, lm2: str) -> bool:
    """
    pre: len(lm1) == 1 and len(lm2) == 1
    pre: lm1 in "01" and lm2 in cm.DIG
    pre: cm.dates_valid(SPECS[134], {"l": "20" + "24" + "-" + lm1 + lm2 + "-" + "10"})
    post: _
    """
    return V(check_c01(134, {"l": "20" + "24" + "-" + lm1 + lm2 + "-" + "10"}))


def sk_135(zd1: str, zd2: str, zy: str, zthree: bool) -> bool:
    """
    pre: len(zd1) == 1 and len(zd2) == 1 and len(zy) == 1
    pre: zd1 in "0123" and zd2 in cm.DIG and zy in "34"
    pre: cm.dates_valid(SPECS[135], {"z": "2" + zy + "02" + zd1 + zd2 + ("#0Rx" if zthree else "#0R")})
    post: _
    """
    return V(check_c01(135, {"z": "2" + zy + "02" + zd1 + zd2 + ("#0Rx" if zthree else "#0R")}))


def sk_136(dd1: str, dd2: str, dy: str) -> bool:
    """
    pre: len(dd1) == 1 and len(dd2) == 1 and len(dy) == 1
    pre: dd1 in cm.DIG and dd2 in cm.DIG and dy in "34"
    pre: cm.dates_valid(SPECS[136], {"d": "2" + dy + "02" + dd1 + dd2})
    post: _
    """
    return V(check_c01(136, {"d": "2" + dy + "02" + dd1 + dd2}))


def sk_137(zd1: str, zd2: str, zy: str, zthree: bool) -> bool:
    """
    pre: len(zd1) == 1 and len(zd2) == 1 and len(zy) == 1
    pre: zd1 in "0123" and zd2 in cm.DIG and zy in "34"
    pre: cm.dates_valid(SPECS[137], {"z": "2" + zy + "02" + zd1 + zd2 + ("#0Rx" if zthree else "#0R")})
    post: _
    """
    return V(check_c01(137, {"z": "2" + zy + "02" + zd1 + zd2 + ("#0Rx" if zthree else "#0R")}))


def sk_138(dd1: str, dd2: str, dy: str) -> bool:
    """
    pre: len(dd1) == 1 and len(dd2) == 1 and len(dy) == 1
    pre: dd1 in cm.DIG and dd2 in cm.DIG and dy in "34"
    pre: cm.dates_valid(SPECS[138], {"d": "2" + dy + "02" + dd1 + dd2})
    post: _
    """
    return V(check_c01(138, {"d": "2" + dy + "02" + dd1 + dd2}))


def sk_139(ld1: str, ld2: str, ly: str) -> bool:
    """
    pre: len(ld1) == 1 and len(ld2) == 1 and len(ly) == 1
    pre: ld1 in "0123" and ld2 in cm.DIG and ly in "34"
    pre: cm.dates_valid(SPECS[139], {"l": "20" + "2" + ly + "-" + "02" + "-" + ld1 + ld2})
    post: _
    """
    return V(check_c01(139, {"l": "20" + "2" + ly + "-" + "02" + "-" + ld1 + ld2}))


def sk_140(w: int) -> bool:
    """
    pre: 0 <= w < len(cm.ID_MENU)
    pre: cm.dates_valid(SPECS[140], {"w": cm.ID_MENU[w]})
    post: _
    """
    return V(check_c01(140, {"w": cm.ID_MENU[w]}))


def sk_141(w: int) -> bool:
    """
    pre: 0 <= w < len(cm.ID_MENU)
    pre: cm.dates_valid(SPECS[141], {"w": cm.ID_MENU[w]})
    post: _
    """
    return V(check_c01(141, {"w": cm.ID_MENU[w]}))


def sk_142(w: int) -> bool:
    """
    pre: 0 <= w < len(cm.ID_MENU)
    pre: cm.dates_valid(SPECS[142], {"w": cm.ID_MENU[w]})
    post: _
    """
    return V(check_c01(142, {"w": cm.ID_MENU[w]}))


def sk_143(w: int) -> bool:
    """
    pre: 0 <= w < len(cm.ID_MENU)
    pre: cm.dates_valid(SPECS[143], {"w": cm.ID_MENU[w]})
    post: _
    """
    return V(check_c01(143, {"w": cm.ID_MENU[w]}))


def sk_144(w: int) -> bool:
    """
    pre: 0 <= w < len(cm.ID_MENU)
    pre: cm.dates_valid(SPECS[144], {"w": cm.ID_MENU[w]})
    post: _
    """
    return V(check_c01(144, {"w": cm.ID_MENU[w]}))


def sk_145(w: int) -> bool:
    """
    pre: 0 <= w < len(cm.ID_MENU)
    pre: cm.dates_valid(SPECS[145], {"w": cm.ID_MENU[w]})
    post: _
    """
    return V(check_c01(145, {"w": cm.ID_MENU[w]}))


def sk_146(w: int) -> bool:
    """
    pre: 0 <= w < len(cm.ID_MENU)
    pre: cm.dates_valid(SPECS[146], {"w": cm.ID_MENU[w]})
    post: _
    """
    return V(check_c01(146, {"w": cm.ID_MENU[w]}))


def sk_147(w: int) -> bool:
    """
    pre: 0 <= w < len(cm.ID_MENU)
    pre: cm.dates_valid(SPECS[147], {"w": cm.ID_MENU[w]})
    post: _
    """
    return V(check_c01(147, {"w": cm.ID_MENU[w]}))


def sk_148(w: int) -> bool:
    """
    pre: 0 <= w < len(cm.ID_MENU)
    pre: cm.dates_valid(SPECS[148], {"w": cm.ID_MENU[w]})
    post: _
    """
    return V(check_c01(148, {"w": cm.ID_MENU[w]}))


def sk_149(w: int) -> bool:
    """
    pre: 0 <= w < len(cm.ID_MENU)
    pre: cm.dates_valid(SPECS[149], {"w": cm.ID_MENU[w]})
    post: _
    """
    return V(check_c01(149, {"w": cm.ID_MENU[w]}))


def sk_150(w: int) -> bool:
    """
    pre: 0 <= w < len(cm.ID_MENU)
    pre: cm.dates_valid(SPECS[150], {"w": cm.ID_MENU[w]})
    post: _
    """
    return V(check_c01(150, {"w": cm.ID_MENU[w]}))


def sk_151(w: int) -> bool:
    """
    pre: 0 <= w < len(cm.ID_MENU)
    pre: cm.dates_valid(SPECS[151], {"w": cm.ID_MENU[w]})
    post: _
    """
    return V(check_c01(151, {"w": cm.ID_MENU[w]}))


def sk_152(w: int) -> bool:
    """
    pre: 0 <= w < len(cm.ID_MENU)
    pre: cm.dates_valid(SPECS[152], {"w": cm.ID_MENU[w]})
    post: _
    """
    return V(check_c01(152, {"w": cm.ID_MENU[w]}))


def sk_153(w: int) -> bool:
    """
    pre: 0 <= w < len(cm.ID_MENU)
    pre: cm.dates_valid(SPECS[153], {"w": cm.ID_MENU[w]})
    post: _
    """
    return V(check_c01(153, {"w": cm.ID_MENU[w]}))


def sk_154(w: int) -> bool:
    """
    pre: 0 <= w < len(cm.ID_MENU)
    pre: cm.dates_valid(SPECS[154], {"w": cm.ID_MENU[w]})
    post: _
    """
    return V(check_c01(154, {"w": cm.ID_MENU[w]}))


def sk_155(w: int) -> bool:
    """
    pre: 0 <= w < len(cm.ID_MENU)
    pre: cm.dates_valid(SPECS[155], {"w": cm.ID_MENU[w]})
    post: _
    """
    return V(check_c01(155, {"w": cm.ID_MENU[w]}))


def sk_156(w: int) -> bool:
    """
    pre: 0 <= w < len(cm.ID_MENU)
    pre: cm.dates_valid(SPECS[156], {"w": cm.ID_MENU[w]})
    post: _
    """
    return V(check_c01(156, {"w": cm.ID_MENU[w]}))


def sk_157(w: int) -> bool:
    """
    pre: 0 <= w < len(cm.ID_MENU)
    pre: cm.dates_valid(SPECS[157], {"w": cm.ID_MENU[w]})
    post: _
    """
    return V(check_c01(157, {"w": cm.ID_MENU[w]}))


def sk_158(w: int) -> bool:
    """
    pre: 0 <= w < len(cm.ID_MENU)
    pre: cm.dates_valid(SPECS[158], {"w": cm.ID_MENU[w]})
    post: _
    """
    return V(check_c01(158, {"w": cm.ID_MENU[w]}))


def sk_159(w: int) -> bool:
    """
    pre: 0 <= w < len(cm.ID_MENU)
    pre: cm.dates_valid(SPECS[159], {"w": cm.ID_MENU[w]})
    post: _
    """
    return V(check_c01(159, {"w": cm.ID_MENU[w]}))


def sk_160(w: int) -> bool:
    """
    pre: 0 <= w < len(cm.ID_MENU)
    pre: cm.dates_valid(SPECS[160], {"w": cm.ID_MENU[w]})
    post: _
    """
    return V(check_c01(160, {"w": cm.ID_MENU[w]}))


def sk_161(w: int) -> bool:
    """
    pre: 0 <= w < len(cm.ID_MENU)
    pre: cm.dates_valid(SPECS[161], {"w": cm.ID_MENU[w]})
    post: _
    """
    return V(check_c01(161, {"w": cm.ID_MENU[w]}))


def sk_162(w: int) -> bool:
    """
    pre: 0 <= w < len(cm.ID_MENU)
    pre: cm.dates_valid(SPECS[162], {"w": cm.ID_MENU[w]})
    post: _
    """
    return V(check_c01(162, {"w": cm.ID_MENU[w]}))


def sk_163(w: int) -> bool:
    """
    pre: 0 <= w < len(cm.ID_MENU)
    pre: cm.dates_valid(SPECS[163], {"w": cm.ID_MENU[w]})
    post: _
    """
    return V(check_c01(163, {"w": cm.ID_MENU[w]}))

