from harness.c01_rt import *  # noqa: F401,F403
from harness.c01_rt import SPECS, N, cm, check_c01


def sk_0(w: str) -> bool:
    """
    pre: cm.P_id(w, 3)
    post: _
    """
    return V(check_c01(0, {"w": w}))


def sk_1(w: int) -> bool:
    """
    pre: 0 <= w < len(cm.ID_MENU)
    post: _
    """
    return V(check_c01(1, {"w": cm.ID_MENU[w]}))


def sk_2(w: str) -> bool:
    """
    pre: cm.P_id(w, 3)
    post: _
    """
    return V(check_c01(2, {"w": w}))


def sk_3(w: int) -> bool:
    """
    pre: 0 <= w < len(cm.ID_MENU)
    post: _
    """
    return V(check_c01(3, {"w": cm.ID_MENU[w]}))


def sk_4(w: str) -> bool:
    """
    pre: cm.P_id(w, 3)
    post: _
    """
    return V(check_c01(4, {"w": w}))


def sk_5(w: int) -> bool:
    """
    pre: 0 <= w < len(cm.ID_MENU)
    post: _
    """
    return V(check_c01(5, {"w": cm.ID_MENU[w]}))


def sk_6(w: str) -> bool:
    """
    pre: cm.P_id(w, 3)
    post: _
    """
    return V(check_c01(6, {"w": w}))


def sk_7(w: int) -> bool:
    """
    pre: 0 <= w < len(cm.ID_MENU)
    post: _
    """
    return V(check_c01(7, {"w": cm.ID_MENU[w]}))


def sk_8(w: str) -> bool:
    """
    pre: cm.P_id(w, 3)
    post: _
    """
    return V(check_c01(8, {"w": w}))


def sk_9(w: int) -> bool:
    """
    pre: 0 <= w < len(cm.ID_MENU)
    post: _
    """
    return V(check_c01(9, {"w": cm.ID_MENU[w]}))


def sk_10(w: str) -> bool:
    """
    pre: cm.P_id(w, 3)
    post: _
    """
    return V(check_c01(10, {"w": w}))


def sk_11(w: int) -> bool:
    """
    pre: 0 <= w < len(cm.ID_MENU)
    post: _
    """
    return V(check_c01(11, {"w": cm.ID_MENU[w]}))


def sk_12(w: str) -> bool:
    """
    pre: cm.P_id(w, 3)
    post: _
    """
    return V(check_c01(12, {"w": w}))


def sk_13(w: int) -> bool:
    """
    pre: 0 <= w < len(cm.ID_MENU)
    post: _
    """
    return V(check_c01(13, {"w": cm.ID_MENU[w]}))


def sk_14(w: str) -> bool:
    """
    pre: cm.P_id(w, 3)
    post: _
    """
    return V(check_c01(14, {"w": w}))


def sk_15(w: int) -> bool:
    """
    pre: 0 <= w < len(cm.ID_MENU)
    post: _
    """
    return V(check_c01(15, {"w": cm.ID_MENU[w]}))


def sk_16(w: str) -> bool:
    """
    pre: cm.P_id(w, 3)
    post: _
    """
    return V(check_c01(16, {"w": w}))


def sk_17(w: int) -> bool:
    """
    pre: 0 <= w < len(cm.ID_MENU)
    post: _
    """
    return V(check_c01(17, {"w": cm.ID_MENU[w]}))


def sk_18(w: str) -> bool:
    """
    pre: cm.P_id(w, 3)
    post: _
    """
    return V(check_c01(18, {"w": w}))


def sk_19(w: int) -> bool:
    """
    pre: 0 <= w < len(cm.ID_MENU)
    post: _
    """
    return V(check_c01(19, {"w": cm.ID_MENU[w]}))


def sk_20(p: str) -> bool:
    """
    pre: len(p) == 1 and p in cm.DIG
    post: _
    """
    return V(check_c01(20, {"p": "P" + p}))


def sk_21(p: int) -> bool:
    """
    pre: 0 <= p <= 9
    post: _
    """
    return V(check_c01(21, {"p": cm.PRI_MENU[p]}))


def sk_22(p: str) -> bool:
    """
    pre: len(p) == 1 and p in cm.DIG
    post: _
    """
    return V(check_c01(22, {"p": "P" + p}))


def sk_23(p: int) -> bool:
    """
    pre: 0 <= p <= 9
    post: _
    """
    return V(check_c01(23, {"p": cm.PRI_MENU[p]}))


def sk_24(p: str) -> bool:
    """
    pre: len(p) == 1 and p in cm.DIG
    post: _
    """
    return V(check_c01(24, {"p": "P" + p}))


def sk_25(p: int) -> bool:
    """
    pre: 0 <= p <= 9
    post: _
    """
    return V(check_c01(25, {"p": cm.PRI_MENU[p]}))


def sk_26(p: str) -> bool:
    """
    pre: len(p) == 1 and p in cm.DIG
    post: _
    """
    return V(check_c01(26, {"p": "P" + p}))


def sk_27(p: int) -> bool:
    """
    pre: 0 <= p <= 9
    post: _
    """
    return V(check_c01(27, {"p": cm.PRI_MENU[p]}))


def sk_28(p: str) -> bool:
    """
    pre: len(p) == 1 and p in cm.DIG
    post: _
    """
    return V(check_c01(28, {"p": "P" + p}))


def sk_29(p: int) -> bool:
    """
    pre: 0 <= p <= 9
    post: _
    """
    return V(check_c01(29, {"p": cm.PRI_MENU[p]}))


def sk_30(w: str) -> bool:
    """
    pre: cm.P_id(w, 3)
    post: _
    """
    return V(check_c01(30, {"w": w}))


def sk_31(w: int) -> bool:
    """
    pre: 0 <= w < len(cm.ID_MENU)
    post: _
    """
    return V(check_c01(31, {"w": cm.ID_MENU[w]}))


def sk_32(w: str) -> bool:
    """
    pre: cm.P_id(w, 3)
    post: _
    """
    return V(check_c01(32, {"w": w}))


def sk_33(w: int) -> bool:
    """
    pre: 0 <= w < len(cm.ID_MENU)
    post: _
    """
    return V(check_c01(33, {"w": cm.ID_MENU[w]}))


def sk_34(w: str) -> bool:
    """
    pre: cm.P_id(w, 3)
    post: _
    """
    return V(check_c01(34, {"w": w}))


def sk_35(w: int) -> bool:
    """
    pre: 0 <= w < len(cm.ID_MENU)
    post: _
    """
    return V(check_c01(35, {"w": cm.ID_MENU[w]}))


def sk_36(w: str) -> bool:
    """
    pre: cm.P_id(w, 3)
    post: _
    """
    return V(check_c01(36, {"w": w}))


def sk_37(w: int) -> bool:
    """
    pre: 0 <= w < len(cm.ID_MENU)
    post: _
    """
    return V(check_c01(37, {"w": cm.ID_MENU[w]}))


def sk_38(w: str) -> bool:
    """
    pre: cm.P_id(w, 3)
    post: _
    """
    return V(check_c01(38, {"w": w}))


def sk_39(w: int) -> bool:
    """
    pre: 0 <= w < len(cm.ID_MENU)
    post: _
    """
    return V(check_c01(39, {"w": cm.ID_MENU[w]}))


def sk_40(p: str) -> bool:
    """
    pre: len(p) == 1 and p in cm.DIG
    post: _
    """
    return V(check_c01(40, {"p": "P" + p}))


def sk_41(p: int) -> bool:
    """
    pre: 0 <= p <= 9
    post: _
    """
    return V(check_c01(41, {"p": cm.PRI_MENU[p]}))


def sk_42(p: str) -> bool:
    """
    pre: len(p) == 1 and p in cm.DIG
    post: _
    """
    return V(check_c01(42, {"p": "P" + p}))


def sk_43(p: int) -> bool:
    """
    pre: 0 <= p <= 9
    post: _
    """
    return V(check_c01(43, {"p": cm.PRI_MENU[p]}))


def sk_44(p: str) -> bool:
    """
    pre: len(p) == 1 and p in cm.DIG
    post: _
    """
    return V(check_c01(44, {"p": "P" + p}))


def sk_45(p: int) -> bool:
    """
    pre: 0 <= p <= 9
    post: _
    """
    return V(check_c01(45, {"p": cm.PRI_MENU[p]}))


def sk_46(p: str) -> bool:
    """
    pre: len(p) == 1 and p in cm.DIG
    post: _
    """
    return V(check_c01(46, {"p": "P" + p}))


def sk_47(p: int) -> bool:
    """
    pre: 0 <= p <= 9
    post: _
    """
    return V(check_c01(47, {"p": cm.PRI_MENU[p]}))


def sk_48(p: str) -> bool:
    """
    pre: len(p) == 1 and p in cm.DIG
    post: _
    """
    return V(check_c01(48, {"p": "P" + p}))


def sk_49(p: int) -> bool:
    """
    pre: 0 <= p <= 9
    post: _
    """
    return V(check_c01(49, {"p": cm.PRI_MENU[p]}))


def sk_50(w: str) -> bool:
    """
    pre: cm.P_id(w, 3)
    post: _
    """
    return V(check_c01(50, {"w": w}))


def sk_51(w: int) -> bool:
    """
    pre: 0 <= w < len(cm.ID_MENU)
    post: _
    """
    return V(check_c01(51, {"w": cm.ID_MENU[w]}))


def sk_52(w: str) -> bool:
    """
    pre: cm.P_id(w, 3)
    post: _
    """
    return V(check_c01(52, {"w": w}))


def sk_53(w: int) -> bool:
    """
    pre: 0 <= w < len(cm.ID_MENU)
    post: _
    """
    return V(check_c01(53, {"w": cm.ID_MENU[w]}))


def sk_54(w: str) -> bool:
    """
    pre: cm.P_id(w, 3)
    post: _
    """
    return V(check_c01(54, {"w": w}))


def sk_55(w: int) -> bool:
    """
    pre: 0 <= w < len(cm.ID_MENU)
    post: _
    """
    return V(check_c01(55, {"w": cm.ID_MENU[w]}))


def sk_56(w: str) -> bool:
    """
    pre: cm.P_id(w, 3)
    post: _
    """
    return V(check_c01(56, {"w": w}))


def sk_57(w: int) -> bool:
    """
    pre: 0 <= w < len(cm.ID_MENU)
    post: _
    """
    return V(check_c01(57, {"w": cm.ID_MENU[w]}))


def sk_58(w: str) -> bool:
    """
    pre: cm.P_id(w, 3)
    post: _
    """
    return V(check_c01(58, {"w": w}))


def sk_59(w: int) -> bool:
    """
    pre: 0 <= w < len(cm.ID_MENU)
    post: _
    """
    return V(check_c01(59, {"w": cm.ID_MENU[w]}))


def sk_60(p: str) -> bool:
    """
    pre: len(p) == 1 and p in cm.DIG
    post: _
    """
    return V(check_c01(60, {"p": "P" + p}))


def sk_61(p: int) -> bool:
    """
    pre: 0 <= p <= 9
    post: _
    """
    return V(check_c01(61, {"p": cm.PRI_MENU[p]}))


def sk_62(p: str) -> bool:
    """
    pre: len(p) == 1 and p in cm.DIG
    post: _
    """
    return V(check_c01(62, {"p": "P" + p}))


def sk_63(p: int) -> bool:
    """
    pre: 0 <= p <= 9
    post: _
    """
    return V(check_c01(63, {"p": cm.PRI_MENU[p]}))


def sk_64(p: str) -> bool:
    """
    pre: len(p) == 1 and p in cm.DIG
    post: _
    """
    return V(check_c01(64, {"p": "P" + p}))


def sk_65(p: int) -> bool:
    """
    pre: 0 <= p <= 9
    post: _
    """
    return V(check_c01(65, {"p": cm.PRI_MENU[p]}))


def sk_66(p: str) -> bool:
    """
    pre: len(p) == 1 and p in cm.DIG
    post: _
    """
    return V(check_c01(66, {"p": "P" + p}))


def sk_67(p: int) -> bool:
    """
    pre: 0 <= p <= 9
    post: _
    """
    return V(check_c01(67, {"p": cm.PRI_MENU[p]}))


def sk_68(p: str) -> bool:
    """
    pre: len(p) == 1 and p in cm.DIG
    post: _
    """
    return V(check_c01(68, {"p": "P" + p}))


def sk_69(p: int) -> bool:
    """
    pre: 0 <= p <= 9
    post: _
    """
    return V(check_c01(69, {"p": cm.PRI_MENU[p]}))


def sk_70(w: str) -> bool:
    """
    pre: cm.P_id(w, 3)
    post: _
    """
    return V(check_c01(70, {"w": w}))


def sk_71(w: int) -> bool:
    """
    pre: 0 <= w < len(cm.ID_MENU)
    post: _
    """
    return V(check_c01(71, {"w": cm.ID_MENU[w]}))


def sk_72(w: str) -> bool:
    """
    pre: cm.P_id(w, 3)
    post: _
    """
    return V(check_c01(72, {"w": w}))


def sk_73(w: int) -> bool:
    """
    pre: 0 <= w < len(cm.ID_MENU)
    post: _
    """
    return V(check_c01(73, {"w": cm.ID_MENU[w]}))


def sk_74(w: str) -> bool:
    """
    pre: cm.P_id(w, 3)
    post: _
    """
    return V(check_c01(74, {"w": w}))


def sk_75(w: int) -> bool:
    """
    pre: 0 <= w < len(cm.ID_MENU)
    post: _
    """
    return V(check_c01(75, {"w": cm.ID_MENU[w]}))


def sk_76(w: str) -> bool:
    """
    pre: cm.P_id(w, 3)
    post: _
    """
    return V(check_c01(76, {"w": w}))


def sk_77(w: int) -> bool:
    """
    pre: 0 <= w < len(cm.ID_MENU)
    post: _
    """
    return V(check_c01(77, {"w": cm.ID_MENU[w]}))


def sk_78(w: str) -> bool:
    """
    pre: cm.P_id(w, 3)
    post: _
    """
    return V(check_c01(78, {"w": w}))


def sk_79(w: int) -> bool:
    """
    pre: 0 <= w < len(cm.ID_MENU)
    post: _
    """
    return V(check_c01(79, {"w": cm.ID_MENU[w]}))


def sk_80(p: str) -> bool:
    """
    pre: len(p) == 1 and p in cm.DIG
    post: _
    """
    return V(check_c01(80, {"p": "P" + p}))


def sk_81(p: int) -> bool:
    """
    pre: 0 <= p <= 9
    post: _
    """
    return V(check_c01(81, {"p": cm.PRI_MENU[p]}))


def sk_82(p: str) -> bool:
    """
    pre: len(p) == 1 and p in cm.DIG
    post: _
    """
    return V(check_c01(82, {"p": "P" + p}))


def sk_83(p: int) -> bool:
    """
    pre: 0 <= p <= 9
    post: _
    """
    return V(check_c01(83, {"p": cm.PRI_MENU[p]}))


def sk_84(p: str) -> bool:
    """
    pre: len(p) == 1 and p in cm.DIG
    post: _
    """
    return V(check_c01(84, {"p": "P" + p}))


def sk_85(p: int) -> bool:
    """
    pre: 0 <= p <= 9
    post: _
    """
    return V(check_c01(85, {"p": cm.PRI_MENU[p]}))


def sk_86(p: str) -> bool:
    """
    pre: len(p) == 1 and p in cm.DIG
    post: _
    """
    return V(check_c01(86, {"p": "P" + p}))


def sk_87(p: int) -> bool:
    """
    pre: 0 <= p <= 9
    post: _
    """
    return V(check_c01(87, {"p": cm.PRI_MENU[p]}))


def sk_88(p: str) -> bool:
    """
    pre: len(p) == 1 and p in cm.DIG
    post: _
    """
    return V(check_c01(88, {"p": "P" + p}))


def sk_89(p: int) -> bool:
    """
    pre: 0 <= p <= 9
    post: _
    """
    return V(check_c01(89, {"p": cm.PRI_MENU[p]}))


def sk_90(w: str) -> bool:
    """
    pre: cm.P_id(w, 3)
    post: _
    """
    return V(check_c01(90, {"w": w}))


def sk_91(w: int) -> bool:
    """
    pre: 0 <= w < len(cm.ID_MENU)
    post: _
    """
    return V(check_c01(91, {"w": cm.ID_MENU[w]}))


def sk_92(w: str) -> bool:
    """
    pre: cm.P_id(w, 3)
    post: _
    """
    return V(check_c01(92, {"w": w}))


def sk_93(w: int) -> bool:
    """
    pre: 0 <= w < len(cm.ID_MENU)
    post: _
    """
    return V(check_c01(93, {"w": cm.ID_MENU[w]}))


def sk_94(w: str) -> bool:
    """
    pre: cm.P_id(w, 3)
    post: _
    """
    return V(check_c01(94, {"w": w}))


def sk_95(w: int) -> bool:
    """
    pre: 0 <= w < len(cm.ID_MENU)
    post: _
    """
    return V(check_c01(95, {"w": cm.ID_MENU[w]}))


def sk_96(w: str) -> bool:
    """
    pre: cm.P_id(w, 3)
    post: _
    """
    return V(check_c01(96, {"w": w}))


def sk_97(w: int) -> bool:
    """
    pre: 0 <= w < len(cm.ID_MENU)
    post: _
    """
    return V(check_c01(97, {"w": cm.ID_MENU[w]}))


def sk_98(w: str) -> bool:
    """
    pre: cm.P_id(w, 3)
    post: _
    """
    return V(check_c01(98, {"w": w}))


def sk_99(w: int) -> bool:
    """
    pre: 0 <= w < len(cm.ID_MENU)
    post: _
    """
    return V(check_c01(99, {"w": cm.ID_MENU[w]}))


def sk_100(p: str) -> bool:
    """
    pre: len(p) == 1 and p in cm.DIG
    post: _
    """
    return V(check_c01(100, {"p": "P" + p}))


def sk_101(p: int) -> bool:
    """
    pre: 0 <= p <= 9
    post: _
    """
    return V(check_c01(101, {"p": cm.PRI_MENU[p]}))


def sk_102(p: str) -> bool:
    """
    pre: len(p) == 1 and p in cm.DIG
    post: _
    """
    return V(check_c01(102, {"p": "P" + p}))


def sk_103(p: int) -> bool:
    """
    pre: 0 <= p <= 9
    post: _
    """
    return V(check_c01(103, {"p": cm.PRI_MENU[p]}))


def sk_104(p: str) -> bool:
    """
    pre: len(p) == 1 and p in cm.DIG
    post: _
    """
    return V(check_c01(104, {"p": "P" + p}))


def sk_105(p: int) -> bool:
    """
    pre: 0 <= p <= 9
    post: _
    """
    return V(check_c01(105, {"p": cm.PRI_MENU[p]}))


def sk_106(p: str) -> bool:
    """
    pre: len(p) == 1 and p in cm.DIG
    post: _
    """
    return V(check_c01(106, {"p": "P" + p}))


def sk_107(p: int) -> bool:
    """
    pre: 0 <= p <= 9
    post: _
    """
    return V(check_c01(107, {"p": cm.PRI_MENU[p]}))


def sk_108(p: str) -> bool:
    """
    pre: len(p) == 1 and p in cm.DIG
    post: _
    """
    return V(check_c01(108, {"p": "P" + p}))


def sk_109(p: int) -> bool:
    """
    pre: 0 <= p <= 9
    post: _
    """
    return V(check_c01(109, {"p": cm.PRI_MENU[p]}))


def sk_110(z: int, zthree: bool) -> bool:
    """
    pre: 0 <= z < len(cm.DATE_MENU)
    post: _
    """
    return V(check_c01(110, {"z": cm.DATE_MENU[z] + ("#0Rx" if zthree else "#0R")}))


def sk_111(d: int) -> bool:
    """
    pre: 0 <= d < len(cm.DATE_MENU)
    post: _
    """
    return V(check_c01(111, {"d": cm.DATE_MENU[d]}))


def sk_112(z: int, zthree: bool) -> bool:
    """
    pre: 0 <= z < len(cm.DATE_MENU)
    post: _
    """
    return V(check_c01(112, {"z": cm.DATE_MENU[z] + ("#0Rx" if zthree else "#0R")}))


def sk_113(d: int) -> bool:
    """
    pre: 0 <= d < len(cm.DATE_MENU)
    post: _
    """
    return V(check_c01(113, {"d": cm.DATE_MENU[d]}))


def sk_114(l: int) -> bool:
    """
    pre: 0 <= l < len(cm.DATE_MENU)
    post: _
    """
    return V(check_c01(114, {"l": cm.long_of(cm.DATE_MENU[l])}))


def sk_115(z: int, zthree: bool) -> bool:
    """
    pre: 0 <= z < len(cm.DATE_MENU)
    post: _
    """
    return V(check_c01(115, {"z": cm.DATE_MENU[z] + ("#0Rx" if zthree else "#0R")}))


def sk_116(d: int) -> bool:
    """
    pre: 0 <= d < len(cm.DATE_MENU)
    post: _
    """
    return V(check_c01(116, {"d": cm.DATE_MENU[d]}))


def sk_117(z: int, zthree: bool) -> bool:
    """
    pre: 0 <= z < len(cm.DATE_MENU)
    post: _
    """
    return V(check_c01(117, {"z": cm.DATE_MENU[z] + ("#0Rx" if zthree else "#0R")}))


def sk_118(d: int) -> bool:
    """
    pre: 0 <= d < len(cm.DATE_MENU)
    post: _
    """
    return V(check_c01(118, {"d": cm.DATE_MENU[d]}))


def sk_119(l: int) -> bool:
    """
    pre: 0 <= l < len(cm.DATE_MENU)
    post: _
    """
    return V(check_c01(119, {"l": cm.long_of(cm.DATE_MENU[l])}))


def sk_120(z: int, zthree: bool) -> bool:
    """
    pre: 0 <= z < len(cm.DATE_MENU)
    post: _
    """
    return V(check_c01(120, {"z": cm.DATE_MENU[z] + ("#0Rx" if zthree else "#0R")}))


def sk_121(d: int) -> bool:
    """
    pre: 0 <= d < len(cm.DATE_MENU)
    post: _
    """
    return V(check_c01(121, {"d": cm.DATE_MENU[d]}))


def sk_122(z: int, zthree: bool) -> bool:
    """
    pre: 0 <= z < len(cm.DATE_MENU)
    post: _
    """
    return V(check_c01(122, {"z": cm.DATE_MENU[z] + ("#0Rx" if zthree else "#0R")}))


def sk_123(d: int) -> bool:
    """
    pre: 0 <= d < len(cm.DATE_MENU)
    post: _
    """
    return V(check_c01(123, {"d": cm.DATE_MENU[d]}))


def sk_124(l: int) -> bool:
    """
    pre: 0 <= l < len(cm.DATE_MENU)
    post: _
    """
    return V(check_c01(124, {"l": cm.long_of(cm.DATE_MENU[l])}))


def sk_125(w: int) -> bool:
    """
    pre: 0 <= w < len(cm.ID_MENU)
    post: _
    """
    return V(check_c01(125, {"w": cm.ID_MENU[w]}))


def sk_126(w: int) -> bool:
    """
    pre: 0 <= w < len(cm.ID_MENU)
    post: _
    """
    return V(check_c01(126, {"w": cm.ID_MENU[w]}))


def sk_127(w: int) -> bool:
    """
    pre: 0 <= w < len(cm.ID_MENU)
    post: _
    """
    return V(check_c01(127, {"w": cm.ID_MENU[w]}))


def sk_128(w: int) -> bool:
    """
    pre: 0 <= w < len(cm.ID_MENU)
    post: _
    """
    return V(check_c01(128, {"w": cm.ID_MENU[w]}))


def sk_129(w: int) -> bool:
    """
    pre: 0 <= w < len(cm.ID_MENU)
    post: _
    """
    return V(check_c01(129, {"w": cm.ID_MENU[w]}))


def sk_130(w: int) -> bool:
    """
    pre: 0 <= w < len(cm.ID_MENU)
    post: _
    """
    return V(check_c01(130, {"w": cm.ID_MENU[w]}))


def sk_131(w: int) -> bool:
    """
    pre: 0 <= w < len(cm.ID_MENU)
    post: _
    """
    return V(check_c01(131, {"w": cm.ID_MENU[w]}))


def sk_132(w: int) -> bool:
    """
    pre: 0 <= w < len(cm.ID_MENU)
    post: _
    """
    return V(check_c01(132, {"w": cm.ID_MENU[w]}))


def sk_133(w: int) -> bool:
    """
    pre: 0 <= w < len(cm.ID_MENU)
    post: _
    """
    return V(check_c01(133, {"w": cm.ID_MENU[w]}))


def sk_134(w: int) -> bool:
    """
    pre: 0 <= w < len(cm.ID_MENU)
    post: _
    """
    return V(check_c01(134, {"w": cm.ID_MENU[w]}))


def sk_135(w: int) -> bool:
    """
    pre: 0 <= w < len(cm.ID_MENU)
    post: _
    """
    return V(check_c01(135, {"w": cm.ID_MENU[w]}))


def sk_136(w: int) -> bool:
    """
    pre: 0 <= w < len(cm.ID_MENU)
    post: _
    """
    return V(check_c01(136, {"w": cm.ID_MENU[w]}))


def sk_137(w: int) -> bool:
    """
    pre: 0 <= w < len(cm.ID_MENU)
    post: _
    """
    return V(check_c01(137, {"w": cm.ID_MENU[w]}))


def sk_138(w: int) -> bool:
    """
    pre: 0 <= w < len(cm.ID_MENU)
    post: _
    """
    return V(check_c01(138, {"w": cm.ID_MENU[w]}))


def sk_139(w: int) -> bool:
    """
    pre: 0 <= w < len(cm.ID_MENU)
    post: _
    """
    return V(check_c01(139, {"w": cm.ID_MENU[w]}))


def sk_140(w: int) -> bool:
    """
    pre: 0 <= w < len(cm.ID_MENU)
    post: _
    """
    return V(check_c01(140, {"w": cm.ID_MENU[w]}))


def sk_141(w: int) -> bool:
    """
    pre: 0 <= w < len(cm.ID_MENU)
    post: _
    """
    return V(check_c01(141, {"w": cm.ID_MENU[w]}))


def sk_142(w: int) -> bool:
    """
    pre: 0 <= w < len(cm.ID_MENU)
    post: _
    """
    return V(check_c01(142, {"w": cm.ID_MENU[w]}))


def sk_143(w: int) -> bool:
    """
    pre: 0 <= w < len(cm.ID_MENU)
    post: _
    """
    return V(check_c01(143, {"w": cm.ID_MENU[w]}))


def sk_144(w: int) -> bool:
    """
    pre: 0 <= w < len(cm.ID_MENU)
    post: _
    """
    return V(check_c01(144, {"w": cm.ID_MENU[w]}))


def sk_145(w: int) -> bool:
    """
    pre: 0 <= w < len(cm.ID_MENU)
    post: _
    """
    return V(check_c01(145, {"w": cm.ID_MENU[w]}))


def sk_146(w: int) -> bool:
    """
    pre: 0 <= w < len(cm.ID_MENU)
    post: _
    """
    return V(check_c01(146, {"w": cm.ID_MENU[w]}))


def sk_147(w: int) -> bool:
    """
    pre: 0 <= w < len(cm.ID_MENU)
    post: _
    """
    return V(check_c01(147, {"w": cm.ID_MENU[w]}))


def sk_148(w: int) -> bool:
    """
    pre: 0 <= w < len(cm.ID_MENU)
    post: _
    """
    return V(check_c01(148, {"w": cm.ID_MENU[w]}))


def sk_149(w: int) -> bool:
    """
    pre: 0 <= w < len(cm.ID_MENU)
    post: _
    """
    return V(check_c01(149, {"w": cm.ID_MENU[w]}))


def sk_150(w: int) -> bool:
    """
    pre: 0 <= w < len(cm.ID_MENU)
    post: _
    """
    return V(check_c01(150, {"w": cm.ID_MENU[w]}))


def sk_151(w: int) -> bool:
    """
    pre: 0 <= w < len(cm.ID_MENU)
    post: _
    """
    return V(check_c01(151, {"w": cm.ID_MENU[w]}))


def sk_152(w: int) -> bool:
    """
    pre: 0 <= w < len(cm.ID_MENU)
    post: _
    """
    return V(check_c01(152, {"w": cm.ID_MENU[w]}))


def sk_153(w: int) -> bool:
    """
    pre: 0 <= w < len(cm.ID_MENU)
    post: _
    """
    return V(check_c01(153, {"w": cm.ID_MENU[w]}))


def sk_154(w: int) -> bool:
    """
    pre: 0 <= w < len(cm.ID_MENU)
    post: _
    """
    return V(check_c01(154, {"w": cm.ID_MENU[w]}))


def sk_155(w: int) -> bool:
    """
    pre: 0 <= w < len(cm.ID_MENU)
    post: _
    """
    return V(check_c01(155, {"w": cm.ID_MENU[w]}))


def sk_156(w: int) -> bool:
    """
    pre: 0 <= w < len(cm.ID_MENU)
    post: _
    """
    return V(check_c01(156, {"w": cm.ID_MENU[w]}))


def sk_157(w: int) -> bool:
    """
    pre: 0 <= w < len(cm.ID_MENU)
    post: _
    """
    return V(check_c01(157, {"w": cm.ID_MENU[w]}))


def sk_158(w: int) -> bool:
    """
    pre: 0 <= w < len(cm.ID_MENU)
    post: _
    """
    return V(check_c01(158, {"w": cm.ID_MENU[w]}))


def sk_159(w: int) -> bool:
    """
    pre: 0 <= w < len(cm.ID_MENU)
    post: _
    """
    return V(check_c01(159, {"w": cm.ID_MENU[w]}))


def sk_160(w: int) -> bool:
    """
    pre: 0 <= w < len(cm.ID_MENU)
    post: _
    """
    return V(check_c01(160, {"w": cm.ID_MENU[w]}))


def sk_161(w: int) -> bool:
    """
    pre: 0 <= w < len(cm.ID_MENU)
    post: _
    """
    return V(check_c01(161, {"w": cm.ID_MENU[w]}))


def sk_162(w: int) -> bool:
    """
    pre: 0 <= w < len(cm.ID_MENU)
    post: _
    """
    return V(check_c01(162, {"w": cm.ID_MENU[w]}))


def sk_163(w: int) -> bool:
    """
    pre: 0 <= w < len(cm.ID_MENU)
    post: _
    """
    return V(check_c01(163, {"w": cm.ID_MENU[w]}))


def sk_164(w: int) -> bool:
    """
    pre: 0 <= w < len(cm.ID_MENU)
    post: _
    """
    return V(check_c01(164, {"w": cm.ID_MENU[w]}))


def sk_165(w: int) -> bool:
    """
    pre: 0 <= w < len(cm.ID_MENU)
    post: _
    """
    return V(check_c01(165, {"w": cm.ID_MENU[w]}))


def sk_166(w: int) -> bool:
    """
    pre: 0 <= w < len(cm.ID_MENU)
    post: _
    """
    return V(check_c01(166, {"w": cm.ID_MENU[w]}))


def sk_167(w: int) -> bool:
    """
    pre: 0 <= w < len(cm.ID_MENU)
    post: _
    """
    return V(check_c01(167, {"w": cm.ID_MENU[w]}))


def sk_168(w: int) -> bool:
    """
    pre: 0 <= w < len(cm.ID_MENU)
    post: _
    """
    return V(check_c01(168, {"w": cm.ID_MENU[w]}))


def sk_169(w: int) -> bool:
    """
    pre: 0 <= w < len(cm.ID_MENU)
    post: _
    """
    return V(check_c01(169, {"w": cm.ID_MENU[w]}))


def sk_170(w: int) -> bool:
    """
    pre: 0 <= w < len(cm.ID_MENU)
    post: _
    """
    return V(check_c01(170, {"w": cm.ID_MENU[w]}))


def sk_171(w: int) -> bool:
    """
    pre: 0 <= w < len(cm.ID_MENU)
    post: _
    """
    return V(check_c01(171, {"w": cm.ID_MENU[w]}))


def sk_172(w: int) -> bool:
    """
    pre: 0 <= w < len(cm.ID_MENU)
    post: _
    """
    return V(check_c01(172, {"w": cm.ID_MENU[w]}))


def sk_173(w: int) -> bool:
    """
    pre: 0 <= w < len(cm.ID_MENU)
    post: _
    """
    return V(check_c01(173, {"w": cm.ID_MENU[w]}))


def sk_174(w: int) -> bool:
    """
    pre: 0 <= w < len(cm.ID_MENU)
    post: _
    """
    return V(check_c01(174, {"w": cm.ID_MENU[w]}))


def sk_175(w: int) -> bool:
    """
    pre: 0 <= w < len(cm.ID_MENU)
    post: _
    """
    return V(check_c01(175, {"w": cm.ID_MENU[w]}))


def sk_176(w: int) -> bool:
    """
    pre: 0 <= w < len(cm.ID_MENU)
    post: _
    """
    return V(check_c01(176, {"w": cm.ID_MENU[w]}))


def sk_177(w: int) -> bool:
    """
    pre: 0 <= w < len(cm.ID_MENU)
    post: _
    """
    return V(check_c01(177, {"w": cm.ID_MENU[w]}))


def sk_178(w: int) -> bool:
    """
    pre: 0 <= w < len(cm.ID_MENU)
    post: _
    """
    return V(check_c01(178, {"w": cm.ID_MENU[w]}))


def sk_179(w: int) -> bool:
    """
    pre: 0 <= w < len(cm.ID_MENU)
    post: _
    """
    return V(check_c01(179, {"w": cm.ID_MENU[w]}))


def sk_180(w: int) -> bool:
    """
    pre: 0 <= w < len(cm.ID_MENU)
    post: _
    """
    return V(check_c01(180, {"w": cm.ID_MENU[w]}))


def sk_181(w: int) -> bool:
    """
    pre: 0 <= w < len(cm.ID_MENU)
    post: _
    """
    return V(check_c01(181, {"w": cm.ID_MENU[w]}))


def sk_182(w: int) -> bool:
    """
    pre: 0 <= w < len(cm.ID_MENU)
    post: _
    """
    return V(check_c01(182, {"w": cm.ID_MENU[w]}))


def sk_183(w: int) -> bool:
    """
    pre: 0 <= w < len(cm.ID_MENU)
    post: _
    """
    return V(check_c01(183, {"w": cm.ID_MENU[w]}))


def sk_184(w: int) -> bool:
    """
    pre: 0 <= w < len(cm.ID_MENU)
    post: _
    """
    return V(check_c01(184, {"w": cm.ID_MENU[w]}))


def sk_185(w: int) -> bool:
    """
    pre: 0 <= w < len(cm.ID_MENU)
    post: _
    """
    return V(check_c01(185, {"w": cm.ID_MENU[w]}))


def sk_186(w: int) -> bool:
    """
    pre: 0 <= w < len(cm.ID_MENU)
    post: _
    """
    return V(check_c01(186, {"w": cm.ID_MENU[w]}))


def sk_187(w: int) -> bool:
    """
    pre: 0 <= w < len(cm.ID_MENU)
    post: _
    """
    return V(check_c01(187, {"w": cm.ID_MENU[w]}))


def sk_188(w: int) -> bool:
    """
    pre: 0 <= w < len(cm.ID_MENU)
    post: _
    """
    return V(check_c01(188, {"w": cm.ID_MENU[w]}))


def sk_189(w: int) -> bool:
    """
    pre: 0 <= w < len(cm.ID_MENU)
    post: _
    """
    return V(check_c01(189, {"w": cm.ID_MENU[w]}))


def sk_190(w: int) -> bool:
    """
    pre: 0 <= w < len(cm.ID_MENU)
    post: _
    """
    return V(check_c01(190, {"w": cm.ID_MENU[w]}))


def sk_191(w: int) -> bool:
    """
    pre: 0 <= w < len(cm.ID_MENU)
    post: _
    """
    return V(check_c01(191, {"w": cm.ID_MENU[w]}))


def grp_192(i: int) -> bool:
    """
    pre: 0 <= i < 6
    post: _
    """
    return V(check_c01(cm.pick([192, 193, 194, 195, 196, 197], i), {}))


def grp_198(i: int) -> bool:
    """
    pre: 0 <= i < 6
    post: _
    """
    return V(check_c01(cm.pick([198, 199, 200, 201, 202, 203], i), {}))


def grp_204(i: int) -> bool:
    """
    pre: 0 <= i < 5
    post: _
    """
    return V(check_c01(cm.pick([204, 205, 206, 207, 208], i), {}))


def grp_209(i: int) -> bool:
    """
    pre: 0 <= i < 6
    post: _
    """
    return V(check_c01(cm.pick([209, 210, 211, 212, 213, 214], i), {}))


def grp_215(i: int) -> bool:
    """
    pre: 0 <= i < 6
    post: _
    """
    return V(check_c01(cm.pick([215, 216, 217, 218, 219, 220], i), {}))


def grp_221(i: int) -> bool:
    """
    pre: 0 <= i < 6
    post: _
    """
    return V(check_c01(cm.pick([221, 222, 223, 224, 225, 226], i), {}))


def grp_227(i: int) -> bool:
    """
    pre: 0 <= i < 5
    post: _
    """
    return V(check_c01(cm.pick([227, 228, 229, 230, 231], i), {}))


def grp_232(i: int) -> bool:
    """
    pre: 0 <= i < 6
    post: _
    """
    return V(check_c01(cm.pick([232, 233, 234, 235, 236, 237], i), {}))


def grp_238(i: int) -> bool:
    """
    pre: 0 <= i < 6
    post: _
    """
    return V(check_c01(cm.pick([238, 239, 240, 241, 242, 243], i), {}))


def grp_244(i: int) -> bool:
    """
    pre: 0 <= i < 6
    post: _
    """
    return V(check_c01(cm.pick([244, 245, 246, 247, 248, 249], i), {}))


def grp_250(i: int) -> bool:
    """
    pre: 0 <= i < 5
    post: _
    """
    return V(check_c01(cm.pick([250, 251, 252, 253, 254], i), {}))


def grp_255(i: int) -> bool:
    """
    pre: 0 <= i < 6
    post: _
    """
    return V(check_c01(cm.pick([255, 256, 257, 258, 259, 260], i), {}))


def grp_261(i: int) -> bool:
    """
    pre: 0 <= i < 6
    post: _
    """
    return V(check_c01(cm.pick([261, 262, 263, 264, 265, 266], i), {}))


def grp_267(i: int) -> bool:
    """
    pre: 0 <= i < 6
    post: _
    """
    return V(check_c01(cm.pick([267, 268, 269, 270, 271, 272], i), {}))


def grp_273(i: int) -> bool:
    """
    pre: 0 <= i < 5
    post: _
    """
    return V(check_c01(cm.pick([273, 274, 275, 276, 277], i), {}))


def grp_278(i: int) -> bool:
    """
    pre: 0 <= i < 6
    post: _
    """
    return V(check_c01(cm.pick([278, 279, 280, 281, 282, 283], i), {}))


def grp_284(i: int) -> bool:
    """
    pre: 0 <= i < 6
    post: _
    """
    return V(check_c01(cm.pick([284, 285, 286, 287, 288, 289], i), {}))


def grp_290(i: int) -> bool:
    """
    pre: 0 <= i < 6
    post: _
    """
    return V(check_c01(cm.pick([290, 291, 292, 293, 294, 295], i), {}))


def grp_296(i: int) -> bool:
    """
    pre: 0 <= i < 5
    post: _
    """
    return V(check_c01(cm.pick([296, 297, 298, 299, 300], i), {}))


def grp_301(i: int) -> bool:
    """
    pre: 0 <= i < 6
    post: _
    """
    return V(check_c01(cm.pick([301, 302, 303, 304, 305, 306], i), {}))


def grp_307(i: int) -> bool:
    """
    pre: 0 <= i < 6
    post: _
    """
    return V(check_c01(cm.pick([307, 308, 309, 310, 311, 312], i), {}))


def grp_313(i: int) -> bool:
    """
    pre: 0 <= i < 6
    post: _
    """
    return V(check_c01(cm.pick([313, 314, 315, 316, 317, 318], i), {}))

