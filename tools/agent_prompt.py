#!/usr/bin/env python3
"""Prints the prompt given to a mutant-seeding sub-agent: ONLY the property text + its scratch worktree."""
import json, sys
pid = sys.argv[1]
for l in open('/verif/properties.jsonl'):
    p = json.loads(l)
    if p['id'] == pid: break
wt = "/tmp/mut4/%s" % pid
out = "/tmp/mutout4/%s" % pid
print(f"""You are helping to evaluate a verification effort by acting as an independent "fault seeder" for the open-source Python project bbugyi200/zorg (a Zettelkasten note-manager CLI: ANTLR grammars for a .zo note format and a query language, compiled into domain models and SQLAlchemy/SQLite queries).

You have your own scratch git worktree of the repository at {wt} (detached HEAD). Work ONLY inside {wt} and write your deliverables to {out}/ . Do not look at or touch /verif or /repo. There is no network.

How to run things: the package source is {wt}/src/zorg. ALWAYS set PYTHONPATH={wt}/src so that your worktree's code is imported (the interpreter /venv/bin/python otherwise imports another copy). The existing test suite is run with:
  cd {wt} && PYTHONPATH={wt}/src /venv/bin/python -m pytest -q -p no:cacheprovider --timeout=900
(84 tests, about 45 s; all pass on the unchanged tree).

The semantic property you are attacking ({p['id']}: {p['title']}):

  STATEMENT: {p['statement']}

  QUANTIFIED OVER: {p['quantifier']['text']}

Your task: produce TWO different, independent, realistic source changes to bbugyi200/zorg (under src/zorg only; do not edit tests, grammars' generated parsers are fair game only if you really need them) such that EACH change, applied alone:
  1. still imports/compiles and the whole existing test suite above still passes, unedited;
  2. BREAKS the property stated above (and note: the demonstration must PASS on the unchanged worktree, so target behaviour that currently satisfies the property);
  3. needs something specific to manifest -- an unusual input, a particular multi-step sequence of operations, a boundary value, a particular combination of features, or two cooperating edits that each look fine alone -- NOT something ordinary use would expose at once. Think of plausible refactoring slips, off-by-one errors, wrong operator/precedence, a dropped reset/condition, a changed default, a 'simplification' that loses a case.
The two changes should touch different mechanisms (different functions or different aspects of the property).

For each change k in (1, 2) deliver, in {out}/ :
  - patch_k.diff : `git diff` of the change against the worktree HEAD (must apply with `git apply` to a clean checkout);
  - demo_k.py    : a small self-contained program (uses only the public code of the package, temp directories, no network) that exits 0 / prints PASS on the UNCHANGED tree and exits non-zero / prints FAIL with the change applied. It must take the source dir from PYTHONPATH (do not hardcode the worktree path inside the import logic) so it can be run against any checkout: `PYTHONPATH=<checkout>/src /venv/bin/python demo_k.py`;
  - notes_k.md   : 5-15 lines: what the change is, why it breaks the property, exactly what it needs in order to manifest, and the commands you ran with their outcomes (test suite with the change: pass count; demo without/with the change).

Procedure: read the relevant code, pick a change, apply it in the worktree, run the full test suite (must pass), run your demo (must FAIL), save the diff, then `git -C {wt} checkout -- .` and confirm the demo PASSES and then do the second change the same way. Leave the worktree clean (no uncommitted changes) when you finish. If a candidate change makes an existing test fail, discard it and choose another. Do not weaken: if you cannot find a change that meets all three requirements for one of the two slots, say so in notes instead of delivering something that ordinary use exposes at once.

Finish with a short report listing the files you wrote and, per change, a one-line description.""")
