#!/bin/sh
# usage: eval_seeded.sh <seeded dir name> <check id> ...   (pairs)  -- runs each check against a scratch worktree with the patch applied
# (ZORG_SRC points at the worktree, /repo itself is not touched); appends one line per pair to /tmp/eval_seeded.log
WT=${WT:-/tmp/ev}
while [ $# -ge 2 ]; do
  S="$1"; ID="$2"; shift 2
  git -C $WT checkout -q -- . ; git -C $WT clean -qfd
  if ! git -C $WT apply /verif/seeded/$S/patch.diff 2>/dev/null; then echo "$S $ID: patch does not apply" >> /tmp/eval_seeded.log; continue; fi
  cd /verif && VERIF_EVIDENCE_DIR=/tmp/ev_evidence ZORG_SRC=$WT/src ./check $ID quick > /tmp/ev.$S.$ID.out 2> /tmp/ev.$S.$ID.err; RC=$?
  echo "$S $ID: exit=$RC violations=$(grep -c '^VIOLATION' /tmp/ev.$S.$ID.out) $(grep '^\[C' /tmp/ev.$S.$ID.err | tail -1) $(grep -c HARNESS-ERROR /tmp/ev.$S.$ID.err) harness-errors" >> /tmp/eval_seeded.log
  git -C $WT checkout -q -- .
done
