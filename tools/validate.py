#!/usr/bin/env python3
"""Validates MANIFEST.json and every evidence file against the schemas in /root/.vp (needs the overlay venv's jsonschema)."""
import glob, json, sys
import jsonschema
man = json.load(open("/verif/MANIFEST.json"))
jsonschema.validate(man, json.load(open("/root/.vp/MANIFEST.schema.json")))
es = json.load(open("/root/.vp/EVIDENCE.schema.json"))
bad = 0
for c in man["checks"]:
    p = "/verif/" + c["evidence_file"]
    try:
        ev = json.load(open(p))
        jsonschema.validate(ev, es)
        assert ev["property_id"] == c["property_id"]
        print("%s ok  tier=%s obligations=%s discharged=%s violations=%s wall=%ss" % (
            c["property_id"], ev["tier"], ev["coverage"]["obligations"], ev["coverage"]["discharged"], ev.get("violations"), ev["wall_s"]))
    except Exception as e:  # noqa
        bad += 1
        print("%s BAD %s: %s" % (c["property_id"], p, str(e)[:200]))
claimed = {c["property_id"] for c in man["checks"]} | {n["property_id"] for n in man.get("not_applicable", [])}
missing = [("C%02d" % i) for i in range(1, 19) if ("C%02d" % i) not in claimed]
print("manifest ok; properties neither claimed nor not_applicable:", missing)
sys.exit(1 if bad or missing else 0)
