#!/bin/sh
# usage: try_mutant.sh <patch.diff> <property id> [tier]   -- apply to /repo, run the check, undo.
P="$(realpath "$1")"; ID="$2"; TIER="${3:-quick}"
cd /repo || exit 2
git diff --quiet || { echo "/repo not clean" >&2; exit 2; }
git apply "$P" || { echo "patch does not apply" >&2; exit 2; }
cd /verif && ./check "$ID" "$TIER" > /tmp/try_mutant.$$.out 2> /tmp/try_mutant.$$.err; RC=$?
git -C /repo checkout -- .
grep -E "^(VIOLATION|KNOWN-FINDING)" /tmp/try_mutant.$$.out
grep -E "HARNESS-ERROR|^\[C[0-9]+ " /tmp/try_mutant.$$.err | cut -c1-400
echo "exit=$RC"
rm -f /tmp/try_mutant.$$.out /tmp/try_mutant.$$.err
