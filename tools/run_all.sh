#!/bin/sh
# usage: tools/run_all.sh [quick|thorough] [ids...]   -- runs the registered checks one after the other, prints a summary
TIER="${1:-quick}"; shift
cd "$(dirname "$0")/.."
IDS="$*"; [ -n "$IDS" ] || IDS=$(python3 -c "import json;print(' '.join(c['property_id'] for c in json.load(open('MANIFEST.json'))['checks']))")
for id in $IDS; do
  S=$(date +%s)
  ./check $id $TIER > /tmp/run_all.$id.out 2> /tmp/run_all.$id.err; RC=$?
  E=$(date +%s)
  echo "$id rc=$RC $((E-S))s  $(grep -c '^VIOLATION' /tmp/run_all.$id.out) violations, $(grep -c '^KNOWN-FINDING' /tmp/run_all.$id.out) known; $(grep '^\[C' /tmp/run_all.$id.err | tail -1)"
  grep -h "HARNESS-ERROR" /tmp/run_all.$id.err | cut -c1-300 | head -3
done
