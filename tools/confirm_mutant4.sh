#!/bin/sh
# usage: confirm_mutant.sh <property id> <k>
# Independently confirms a seeded change in its scratch worktree /tmp/mut/<id>:
#   suite passes with the change, demo fails with it, demo passes without it.
# On success copies patch/demo/notes into /verif/seeded/<id>-<k>/ and writes meta.json (without 'detected_by').
OFF="${OFF:-0}"; export OFF; ID="$1"; K="$2"; SRC="${SRC:-$1}"; WT=/tmp/mut4/$SRC; OUT=/tmp/mutout4/$SRC; KK=$((K+OFF)); DEST=/verif/seeded/$ID-$KK
cd "$WT" || exit 2
git checkout -q -- . ; git clean -qfd
export PYTHONPATH=$WT/src
git apply "$OUT/patch_$K.diff" || { echo "$ID-$K: patch does not apply"; exit 1; }
/venv/bin/python -m pytest -q -p no:cacheprovider --timeout=900 > /tmp/confirm.$ID.$K.tests 2>&1; TRC=$?
SUMMARY=$(tail -1 /tmp/confirm.$ID.$K.tests)
timeout 600 /venv/bin/python "$OUT/demo_$K.py" > /tmp/confirm.$ID.$K.with 2>&1; WRC=$?
git checkout -q -- . ; git clean -qfd
timeout 600 /venv/bin/python "$OUT/demo_$K.py" > /tmp/confirm.$ID.$K.without 2>&1; ORC=$?
echo "$ID-$K: tests rc=$TRC ($SUMMARY) demo-with rc=$WRC demo-without rc=$ORC"
if [ $TRC -eq 0 ] && [ $WRC -ne 0 ] && [ $ORC -eq 0 ]; then
  mkdir -p "$DEST"
  cp "$OUT/patch_$K.diff" "$DEST/patch.diff"; cp "$OUT/demo_$K.py" "$DEST/demo.py"; cp "$OUT/notes_$K.md" "$DEST/notes.md" 2>/dev/null
  python3 - "$ID" "$K" "$SUMMARY" "$WRC" "$ORC" <<'PY'
import json, sys
pid, k, summary, wrc, orc = sys.argv[1:6]
dest = "/verif/seeded/%s-%s" % (pid, int(k) + int(__import__("os").environ.get("OFF","0")))
notes = open(dest + "/notes.md").read() if __import__("os").path.exists(dest + "/notes.md") else ""
meta = {"property": pid, "seed_index": int(k) + int(__import__("os").environ.get("OFF","0")), "round": 4, "source": "independent sub-agent given only the property text and a scratch worktree",
        "needs_to_manifest": notes.strip().split("\n\n")[0][:1200],
        "confirmed": {"suite_with_change": summary, "demo_with_change_rc": int(wrc), "demo_without_change_rc": int(orc),
                      "commands": ["git apply patch.diff (scratch worktree of /repo HEAD)",
                                   "PYTHONPATH=<wt>/src /venv/bin/python -m pytest -q -p no:cacheprovider --timeout=900",
                                   "PYTHONPATH=<wt>/src /venv/bin/python demo.py  (with and without the change)"]}}
json.dump(meta, open(dest + "/meta.json", "w"), indent=1)
PY
  echo "$ID-$K: CONFIRMED -> $DEST"
else
  echo "$ID-$K: NOT confirmed"; tail -5 /tmp/confirm.$ID.$K.with
fi
rm -f /tmp/confirm.$ID.$K.*
