#!/usr/bin/env python3
"""Regenerates /verif/MANIFEST.json from the table below (kept valid at all times)."""
import json, os
HERE = os.path.dirname(os.path.dirname(os.path.abspath(__file__)))
LEVEL_TEXT = ("bounded symbolic execution / SMT equivalence over the real code: exhaustive inside the stated "
              "bounds where the engine reports Confirmed/unsat, bug-hunting only for obligations listed as "
              "inconclusive in the evidence; every counterexample is replayed on the unpatched code before it is reported")
CHECKS = {
 "C07": dict(design="§5 C07", engine="XH+ATN+z3",
             technique="CrossHair (z3) symbolic execution of _get_next_id / ZIDManager.get_next / is_zid; z3 LIA rank lemmas; z3 regex inclusion on the real lexer ATNs",
             note="stubs: in-memory FS, json identity shim; trusted: date.strftime, z3, CrossHair's models of str/dict; concurrency between processes outside the claim"),
 "C09": dict(design="§4 C09", engine="XH",
             technique="CrossHair (z3) symbolic execution of execute_with_session / _group_notes_by / _order_notes_by / _select against an independent rendering oracle",
             note="stubs: repo returns the harness notes, query compilation and saved-query expansion replaced (C04/C15), clock; field domains finite (listed per spec)"),
 "C10": dict(design="§5 C10", engine="XH",
             technique="CrossHair (z3) symbolic execution of _move_note / FileManager.add_note / delete_note / hidden-metadata helpers over solver-chosen page layouts, results recompiled with the real parser and judged by the property oracle",
             note="stubs: in-memory FS, init_from_template (C16), index lookup returns the compiled note; layouts from menus; SQL side outside"),
 "C11": dict(design="§5 C11", engine="XH",
             technique="CrossHair (z3) symbolic execution of _check_for_modified_notes + the ModifiedZorgNotesEvent handler write-back over solver-chosen edit scenarios and days, judged against the statement; kernels for the first-line rewrite and the decision",
             note="stubs: clock, in-memory FS, hash = identity, json shim; old page = compiled old text (SQL round trip only in replay); scenario menus are the bound"),
 "C05": dict(design="§5 C05", engine="XH",
             technique="CrossHair (z3) symbolic execution of SQLRepo.add_file/_add_zids + the NewZorgNotesEvent write-back over solver-chosen page scenarios, rewritten file recompiled with the real compiler and compared field by field with the indexed notes",
             note="stubs: in-memory FS, json shim, hash = identity, clock, SQL session/PageConverter; the ORM/SQLite round trip is not claimed (replay only); scenario menus are the bound"),
 "C06": dict(design="§5 C06", engine="XH",
             technique="CrossHair (z3) symbolic execution of reindex_database + write-back as one inductive step from every pair of invariant-satisfying per-page states (files, index, hash map), plain and explicit-path runs",
             note="stubs: recording repo (SQL deletions/converters not claimed), three-line-page reader for walk_zorg_page, _check_for_modified_notes no-op, in-memory FS, hash = identity; 2 pages"),
 "C13": dict(design="§17 C13", engine="XH",
             technique="CrossHair (z3) over the crash schedule: the solver chooses the pre-state pair, the command and the boundary between two external effects (session commit, write of next_ids.json / hash map / whitelist / a page; also a torn file write) at which the run is killed; the real message-bus loop, reindex_database / create_database, ZIDManager and the ZID write-back run for that choice over a transactional recording session and an in-memory FS, the same command runs again, and the end state is judged against the statement; family converge_real runs the same kind of schedule over the unpatched zorg (real SQLite, SQLRepo, ANTLR compiler) in a temporary directory",
             note="model family stubs: transactional recording session (durable at commit; SQL-level page content and remove_file_by_name's partial commits not claimed), three-line-page reader, _check_for_modified_notes no-op, in-memory FS with atomic / torn writes and atomic replace, hash = identity; 2 pages x 1 note; one interruption; replay kills the real command with os._exit at every real effect boundary"),
 "C18": dict(design="§6 C18", engine="XH",
             technique="CrossHair (z3) symbolic execution of expand_file_group_paths/_paths_from_file_group against an independent recursive flattening; clock stub with local time and zone offset",
             note="stub: clock (datetime.now with/without tz); structures, date patterns and argument lists from the stated finite shapes"),
 "C14": dict(design="§5 C14", engine="XH",
             technique="CrossHair (z3) symbolic execution of run_file_rename over an in-memory directory; page names from a systematic menu, link names by relation to the renamed page",
             note="stubs: prepend_zdir/get_all_zfiles over an in-memory FS; names and link shapes from finite menus (symbolic names are beyond reach: str.replace)"),
 "C16": dict(design="§6 C16", engine="XH",
             technique="CrossHair (z3) symbolic execution of init_from_template / ZorgTemplateManager.render / _build_template_in_dir / process_var_map over an in-memory directory and template environment",
             note="stubs: in-memory FS and template environment (jinja2 trusted, real in replay), strptime model; pattern maps, targets, variable maps from finite menus"),
 "C17": dict(design="§6 C17", engine="XH",
             technique="CrossHair (z3) over lines built from prefix/word/punctuation menus against an oracle written from the statement, plus the option-k relational clause: the whole menu product through one solver-chosen table index (real run_action_open and _open_* functions executed for the chosen entry), and the primary-ZID / continuation-line prefixes again with the runner under CrossHair's tracing",
             note="stubs: in-memory FS, captured print, index lookups from a harness index (real SQLite in replay), init_from_template/subprocess/.zoq refresh recorded; cite keys and named URLs outside"),
 "C01": dict(design="§3 C01", engine="XH+ATN",
             technique="skeleton + holes: real lexer/parser concretely, real ParseTreeWalker + ZorgFileCompiler under CrossHair (z3) with symbolic token texts, oracle from the abstract page; z3 regex inclusion of the hole classes on the real lexer ATN",
             note="stubs: strptime model, clock, loggers; skeleton set is the bound (110 core + layout-token + seeded multi-item pages); hole texts bounded"),
 "C02": dict(design="§3 C02", engine="XH",
             technique="skeleton + holes on decorated section skeletons (all legal header sequences up to the bound): real walker + ZorgFileCompiler under CrossHair (z3) with a menu-valued name symbolic, every note compared with the inheritance oracle",
             note="stubs: strptime model, clock, loggers; header sequences and name menus are the bound"),
 "C08": dict(design="§3 C08", engine="XH",
             technique="solver-chosen pages (risky word-form pairs, continuation shapes, single-token edits of valid pages) compiled by the real walk_zorg_page concretely; CrossHair (z3) symbolic execution of the create/reindex refusal logic under symbolic flags",
             note="ANTLR cannot be traced: parse side concrete, arbitrary non-grammar text NOT claimed; part C stubs walk_zorg_page, repo, FS; C01/C02 run the listener under symbolic token texts"),
 "C12": dict(design="§3 C12", engine="XH",
             technique="skeleton + holes twice: page compiled under symbolic hole texts (CrossHair/z3), emitted text compared as a string with the canonical page's rendering, canonical page parsed concretely and compiled under the same symbolic texts; selections under 5 orderings",
             note="as C01; pages without sections; .zoq header assembly and grouped output outside"),
 "C04": dict(design="§4 C04", engine="XH",
             technique="skeleton + holes on the query grammar: real lexer/parser concretely, real ParseTreeWalker + ZorgQueryCompiler under CrossHair (z3) with symbolic / solver-chosen token texts, compared with the abstract query; symbolic-string kernels for value typing, operator splitting, relative dates",
             note="stub: clock; menus for identifiers/values (hashed into sets); queries the shipped parser rejects are outside; dateutil trusted"),
 "C15": dict(design="§4 C15", engine="z3+XH",
             technique="z3 propositional equivalence between the compiled expansion (real expand_saved_queries + real query compiler) and the intended meaning over all tag assignments; CrossHair (z3) on the first-line word scan and the missing-reference path",
             note="atoms restricted to distinct tags (their truth assignments stand for all indexes); clause/reference shapes enumerated; cyclic sets excluded"),
 "C03": dict(design="§4 C03", engine="SQL",
             technique="SMT equivalence (z3: strings, regex, ints, 3-valued NULL logic) between the SQLAlchemy clause tree of the real to_sql_select, interpreted over a symbolic database with 3 note rows and 2 rows in every other table (link shapes: 2 note rows), and the filter's meaning; forked session stub for helpers that query during conversion; counter-databases and model-validation databases replayed on real SQLite",
             note="trusted leaf models (LIKE, GLOB, date(), CAST) validated on real SQLite each run; well-formed databases only; 3 note rows, 2 rows per other table; typed property values; ASCII strings of length <= 6; filter literals concrete"),
}
NA = {}
PENDING_REASON = "check not built yet in this round (planned, DESIGN.md §11); no claim is made until it is"
ALL = ["C%02d" % i for i in range(1, 19)]
def main():
    checks = []
    for pid in ALL:
        if pid not in CHECKS: continue
        c = CHECKS[pid]
        checks.append({
            "property_id": pid,
            "quick_cmd": "./check %s quick" % pid,
            "thorough_cmd": "./check %s thorough" % pid,
            "evidence_file": "evidence/%s.json" % pid,
            "replay_cmd_template": "cat {path}",
            "engine": c["engine"],
            "level_claimed": {"category": "other", "text": LEVEL_TEXT, "design_ref": c["design"]},
            "level_note": c["note"],
            "technique": c["technique"],
        })
    na = [{"property_id": p, "reason": NA.get(p, PENDING_REASON)} for p in ALL if p not in CHECKS]
    man = {
        "version": 1,
        "setup_cmd": "./setup.sh",
        "hooks": {"guard": "ZORG_VERIF", "enable": "no source hooks are needed: stubs are installed from outside by the harnesses (module attributes, CrossHair patch registry); ZORG_VERIF=1 is exported by ./check for completeness",
                  "baseline_off_cmd": "cd /repo && /venv/bin/python -m pytest -ra -q -p no:cacheprovider --timeout=900 --continue-on-collection-errors",
                  "source_commits": [], "add_only": True},
        "engines": [
            {"name": "XH", "path": "vlib/xh.py", "serves_properties": sorted(CHECKS), "kind_free_text": "CrossHair 0.0.110 symbolic execution of the real zorg functions (z3 per path), one process per condition"},
            {"name": "ATN", "path": "vlib/atn.py", "serves_properties": [p for p in ("C01","C02","C04","C07","C08","C12") if p in CHECKS], "kind_free_text": "real lexer ATN -> regex -> z3 sequence/regex queries (inclusion, token-boundary stability)"},
            {"name": "SQL", "path": "vlib/sql2smt.py", "serves_properties": [p for p in ("C03","C15") if p in CHECKS], "kind_free_text": "SQLAlchemy clause tree of the real to_sql_select -> bounded relational z3 model"},
        ],
        "checks": checks,
        "not_applicable": na,
        "notes": "All checks: exit 0 held / 1 VIOLATION (replayed) / 2 harness error. Known findings: known_findings.json.",
    }
    json.dump(man, open(os.path.join(HERE, "MANIFEST.json"), "w"), indent=1)
if __name__ == "__main__":
    main()
