#!/bin/sh
# usage: confirm_mutant5.sh <property id> <k>   (round 5: deliverables in /tmp/o5_<id>/{patch.diff,demo.py,notes.md})
# Independently confirms a seeded change in the scratch worktree /tmp/ev:
#   suite passes with the change, demo fails with it, demo passes without it.
# On success copies patch/demo/notes into /verif/seeded/<id>-<k>/ and writes meta.json.
ID="$1"; K="$2"; WT=${WT:-/tmp/ev}; OUT=/tmp/o5_$ID; DEST=/verif/seeded/$ID-$K
cd "$WT" || exit 2
git checkout -q -- . ; git clean -qfd
export PYTHONPATH=$WT/src
sed "s#/tmp/w5_$ID#$WT#g" "$OUT/demo.py" > /tmp/confirm5.$ID.demo.py
git apply "$OUT/patch.diff" || { echo "$ID-$K: patch does not apply"; exit 1; }
/venv/bin/python -m pytest -q -p no:cacheprovider --timeout=900 > /tmp/confirm5.$ID.tests 2>&1; TRC=$?
SUMMARY=$(tail -1 /tmp/confirm5.$ID.tests)
timeout 600 /venv/bin/python /tmp/confirm5.$ID.demo.py > /tmp/confirm5.$ID.with 2>&1; WRC=$?
git checkout -q -- . ; git clean -qfd
timeout 600 /venv/bin/python /tmp/confirm5.$ID.demo.py > /tmp/confirm5.$ID.without 2>&1; ORC=$?
echo "$ID-$K: tests rc=$TRC ($SUMMARY) demo-with rc=$WRC demo-without rc=$ORC"
if [ $TRC -eq 0 ] && [ $WRC -ne 0 ] && [ $ORC -eq 0 ]; then
  mkdir -p "$DEST"
  cp "$OUT/patch.diff" "$DEST/patch.diff"; cp /tmp/confirm5.$ID.demo.py "$DEST/demo.py"; cp "$OUT/notes.md" "$DEST/notes.md" 2>/dev/null
  python3 - "$ID" "$K" "$SUMMARY" "$WRC" "$ORC" <<'PY'
import json, os, sys
pid, k, summary, wrc, orc = sys.argv[1:6]
dest = "/verif/seeded/%s-%s" % (pid, k)
notes = open(dest + "/notes.md").read() if os.path.exists(dest + "/notes.md") else ""
meta = {"property": pid, "seed_index": int(k), "round": 5, "source": "independent sub-agent given only the property text and a scratch worktree",
        "needs_to_manifest": notes.strip()[:1500],
        "confirmed": {"suite_with_change": summary, "demo_with_change_rc": int(wrc), "demo_without_change_rc": int(orc),
                      "commands": ["git apply patch.diff (scratch worktree of /repo HEAD)",
                                   "PYTHONPATH=<wt>/src /venv/bin/python -m pytest -q -p no:cacheprovider --timeout=900",
                                   "PYTHONPATH=<wt>/src /venv/bin/python demo.py  (with and without the change)"]}}
json.dump(meta, open(dest + "/meta.json", "w"), indent=1)
PY
  echo "$ID-$K: CONFIRMED -> $DEST"
else
  echo "$ID-$K: NOT confirmed"; tail -5 /tmp/confirm5.$ID.with; tail -3 /tmp/confirm5.$ID.without
fi
rm -f /tmp/confirm5.$ID.*
