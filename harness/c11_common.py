"""C11: edit scenarios and the property oracle, shared by the CrossHair harness and the replay."""
import datetime as dt

Z1, Z2 = "240101#01", "240101#02"
ZDATE = dt.date(2024, 1, 1)
TODAYS = [dt.date(2024, 1, 5), dt.date(2024, 1, 6), dt.date(2024, 1, 1)]
# old forms of note A: (kind prefix incl. priority, modify-date word or None, first-line rest, continuation lines)
OLD_FORMS = [
    ("-", None, "alpha", []),
    ("o P1", None, "alpha", []),
    ("-", "240105", "alpha", []),
    ("o P2", "240105", "alpha one", ["  * bullet"]),
    ("-", "240101", "alpha", []),          # hand-written modify date equal to the ZID's date
    ("x P1", None, "alpha", []),           # a DONE todo that carries an explicit priority (its "todo state" includes it)
    ("-", None, "al\x0cpha\u2028one", []),  # characters str.splitlines() breaks at but the page format does not (FF, LS)
]
EDITS = ["none", "word", "kind", "priority", "bullet", "drop_date_and_word", "drop_zid"]


def render(prefix, mdate, zid, rest, cont):
    words = [prefix] + ([mdate] if mdate else []) + ([zid] if zid else []) + [rest]
    return [" ".join(words)] + list(cont)


def apply_edit(form, edit):
    prefix, mdate, rest, cont = form
    zid = Z1
    if edit == "word":
        rest = rest + " more"
    elif edit == "kind":
        prefix = {"-": "o", "o P1": "x", "o P2": "~", "x P1": "o P1"}[prefix]
    elif edit == "priority":
        prefix = {"-": "-", "o P1": "o P2", "o P2": "o P0", "x P1": "x P2"}[prefix]
        if form[0] == "-":
            rest = rest + " more"
    elif edit == "bullet":
        cont = list(cont) + ["  * new"]
    elif edit == "drop_date_and_word":
        mdate = None
        rest = rest + " more"
    elif edit == "drop_zid":
        zid = None
    return render(prefix, mdate, zid, rest, cont)


def scenario(form_i, edit_i, b_edit, new_note, title_edit):
    """(old file lines, new file lines)"""
    form = OLD_FORMS[form_i]
    old = ["# title", ""] + render(form[0], form[1], Z1, form[2], form[3]) + ["- %s beta" % Z2, ""]
    new = ["# title" + (" changed" if title_edit else ""), ""] + apply_edit(form, EDITS[edit_i])
    new += ["- %s beta%s" % (Z2, " edited" if b_edit else "")]
    if new_note:
        new += ["- gamma"]
    new += [""]
    return old, new


def short(d):
    return d.strftime("%Y%m%d")[2:]


def expected_stamped(old_notes, new_notes, today):
    """the statement: stamped iff the ZID was in the previous index state of the page, text or todo
    state differs from that state, and the note is not already dated today"""
    old = {n.zid: n for n in old_notes if n.zid}
    out = []
    for n in new_notes:
        o = old.get(n.zid) if n.zid else None
        if o is None:
            continue
        differs = (n.body != o.body) or (n.todo_payload != o.todo_payload)
        if differs and n.modify_date != today:
            out.append(n.zid)
    return out


def judge(ob):
    """ob: new_lines (file before stamping), after_lines (file after), today, stamped (zids, from the real code),
    mem (in-memory notes after stamping: zid/body/modify_date/line_no), expected (zids),
    recompiled (notes of the rewritten file), second_round (zids stamped by an immediately following check)"""
    today = ob["today"]
    if sorted(ob["stamped"]) != sorted(ob["expected"]):
        return False, "stamped %r, expected %r" % (ob["stamped"], ob["expected"])
    new_lines, after = ob["new_lines"], ob["after_lines"]
    if len(new_lines) != len(after):
        return False, "line count changed %d -> %d" % (len(new_lines), len(after))
    first_lines = {m["line_no"] - 1: m for m in ob["mem"] if m["zid"] in ob["stamped"]}
    for i, (a, b) in enumerate(zip(new_lines, after)):
        if i in first_lines:
            zid = first_lines[i]["zid"]
            wa, wb = a.split(" "), b.split(" ")
            k = wb.index(zid) if zid in wb else -1
            if k < 1 or wb[k - 1] != short(today):
                return False, "line %d: no %s directly in front of the ZID: %r" % (i + 1, short(today), b)
            # everything else on the line is unchanged: remove the date word(s) in front of the ZID
            ka = wa.index(zid)
            pre_a = wa[:ka - 1] if (ka >= 1 and len(wa[ka - 1]) == 6 and wa[ka - 1].isdigit()) else wa[:ka]
            if pre_a + wa[ka:] != wb[:k - 1] + wb[k:]:
                return False, "line %d changed beyond the date: %r -> %r" % (i + 1, a, b)
        elif a != b:
            return False, "line %d of an unstamped note/other text changed: %r -> %r" % (i + 1, a, b)
    # file and index agree
    rec = {n["zid"]: n for n in ob["recompiled"] if n["zid"]}
    for m in ob["mem"]:
        if not m["zid"]:
            continue
        r = rec.get(m["zid"])
        if r is None:
            return False, "note %s missing after recompiling the rewritten file" % m["zid"]
        if r["body"] != m["body"] or r["modify_date"] != m["modify_date"]:
            return False, "index and file disagree for %s: index body=%r mdate=%s, file body=%r mdate=%s" % (
                m["zid"], m["body"], m["modify_date"], r["body"], r["modify_date"])
    if ob["second_round"]:
        return False, "an immediately following reindex stamps %r again" % (ob["second_round"],)
    return True, ""
