"""C14 CrossHair harness: `file rename` retargets every link to the page and nothing else.

Real code under symbolic execution: zorg.app.runners._run_file.run_file_rename (the registered runner
function itself), zorg.shared.common.simplify_fname / strip_zdir.
Stubs: in-memory FS behind c.prepend_zdir and c.get_all_zfiles (incl. rename and the three
extensions); cfg is a plain object with the three fields the runner reads.
"""
import os

from vlib import hx
from vlib.hx import V
from zorg.app.runners import _run_file as rf
from zorg.shared import common as c

hx.stub_loggers()
ZDIR = "/zd"
FS = [None]


def fake_prepend_zdir(zdir, path):
    p = str(path)
    if "." not in p:
        p = p + ".zo"
    if not p.startswith(ZDIR + "/"):
        p = ZDIR + "/" + p
    return hx.FakePath(p, FS[0])


def fake_get_all_zfiles(zdir):
    fs = FS[0]
    out = []
    for ext in (".zo", ".zot", ".zoq"):
        out.extend(hx.FakePath(p, fs) for p in sorted(fs.files) if p.startswith(ZDIR + "/") and p.endswith(ext))
    return out


hx.put(c, "prepend_zdir", fake_prepend_zdir)
hx.put(c, "get_all_zfiles", fake_get_all_zfiles)


class Cfg:
    def __init__(self, src, dest):
        self.zettel_dir = ZDIR
        self.src_name = src
        self.dest_name = dest


PIN_EXT = int(os.environ.get("XH_EXT", "-1"))
NAME_CHARS = os.environ.get("XH_NAME_CHARS", "aoz/.+")
# how a link's page name relates to A (the renamed page): only REL 0 is a link to A
RELS = ["A", "A+x", "x+A", "A/x", "x/A", "other", "B", "A.pdf", "A:x", "A+", "A-x", "A x"]


def rel_name(r, A, B):
    # 7..11: targets that extend A by a non-word character (an attachment or template sharing the page's stem, ...)
    return [A, A + "x", "x" + A, A + "/x", "x/" + A, "q", B, A + ".pdf", A + ":x", A + "+", A + "-x", A + " x"][r]


def _ok_name(s):
    return (1 <= len(s) <= 3 and all(ch in NAME_CHARS for ch in s) and not s.startswith("/") and not s.endswith("/")
            and "//" not in s and "." not in s)


def build(A, B, r0, anchor0, r1, anchor1, fill):
    def link(r, anchor):
        return "[[" + rel_name(r, A, B) + ("#sec" if anchor else "") + "]]"
    text = "# t\n\n- 240101#01 see " + link(r0, anchor0) + fill + link(r1, anchor1) + ".\n"

    def want_link(r, anchor):
        n = rel_name(r, A, B)
        return "[[" + (B if n == A else n) + ("#sec" if anchor else "") + "]]"
    want = "# t\n\n- 240101#01 see " + want_link(r0, anchor0) + fill + want_link(r1, anchor1) + ".\n"
    return text, want


def rename_menu(a: int, b: int, r0: int, anchor0: bool, r1: int, anchor1: bool, ext: bool) -> bool:
    """
    pre: 0 <= a < len(NAMES) and b == (a + 1) % len(NAMES)
    pre: 0 <= r0 < len(RELS) and r1 in (0, 5)
    pre: _a_ok(a)
    post: _
    """
    return _rename_body(NAMES[a], NAMES[b], r0, anchor0, r1, anchor1, ext)


# every 1-2 letter name over {a, o, z} (names ending in the letters of ".zo" included), plus names with
# a sub-directory, regex metacharacters, a dot, and longer look-alikes
NAMES = [x + y for x in ("", "a", "o", "z") for y in ("a", "o", "z")] + ["todo", "memo", "c++", "dir/a", "a_b", "p.q", "x-y", "a(b)"]
PIN_A = os.environ.get("XH_A", "")


def _a_ok(a):
    if not PIN_A:
        return True
    lo, hi = PIN_A.split("-")
    return int(lo) <= a < int(hi)


def _rename_body(A, B, r0, anchor0, r1, anchor1, ext):
    text, want = build(A, B, r0, anchor0, r1, anchor1, " and ")
    if "." in A or "." in B:
        ext = True        # a dotted name is only a page name when the extension is spelled out
    fs = hx.FakeFS({ZDIR + "/" + A + ".zo": "# page A\n\n- 240101#02 self [[" + A + "]]\n",
                    ZDIR + "/n.zo": text, ZDIR + "/t/m.zot": text, ZDIR + "/zoq/s.zoq": text,
                    ZDIR + "/r.txt": text})
    FS[0] = fs
    rc = rf.run_file_rename(Cfg(A + (".zo" if ext else ""), B + (".zo" if ext else "")))
    moved = (ZDIR + "/" + B + ".zo") in fs.files and (ZDIR + "/" + A + ".zo") not in fs.files
    same = all(fs.files[ZDIR + p] == want for p in ("/n.zo", "/t/m.zot", "/zoq/s.zoq"))
    return V(rc == 0 and moved and same and fs.files[ZDIR + "/r.txt"] == text
             and fs.files[ZDIR + "/" + B + ".zo"] == "# page A\n\n- 240101#02 self [[" + B + "]]\n")
