"""C15 — A saved-query reference filters like the saved query's WHERE clause.   (DESIGN.md §4)

z3 part: for saved-query sets and referencing queries whose atoms are distinct tags, "all indexes" collapses exactly
to "all truth assignments of the tags".  The real expand_saved_queries (real files) and the real query compiler turn
the referencing query into a WhereOrFilter, which is mapped to a propositional formula E; the intended meaning M is
the surrounding filter with the reference replaced by the (separately compiled) saved WHERE clause.  z3 decides
E <-> M; a model is a tag assignment, replayed as a real index with one note carrying exactly those tags.
XH part: the word scan of a saved query's first line and the missing-reference path.
"""
import os as _os
_os.environ["XH_NO_PATCH"] = "1"   # this process replays on the real code: never patch zorg here

import itertools
import os
import sys
import time

import z3

from vlib import xh, zreal
from vlib.driver import Report, handle_xh, known_findings

HDIR = os.path.dirname(os.path.abspath(__file__))
H = os.path.join(HDIR, "c15_h.py")
CLAUSES = {          # saved WHERE clauses over distinct tags
    "conj": "#a #b",
    "alt": "#a | #b",
    "alt3": "#a | #b | @c",
    "paren_first": "(#a | #b) @c",
    "paren_last": "#a (#b | @c)",
    "neg_alt": "!#a | #b",
    "mixed": "#a @c | #b",
    "paren_both": "(#a | #b) @c | +d (#b | @c)",
}
WRAPS = ["W {c}", "S note W {c} O alpha G file", "S # W {c} G @", "W {c} G file section O priority"]
REFS = ["W {q}", "W #x {q}", "W {q} #x", "W #x {q} +y", "W #x | {q}", "W {q} | #x", "W #x ({q} | +y)", "W !#x {q}", "W ({q}) #x",
        "W #x {q} | +y {q}"]
REFS2 = ["W {q} {r}", "W {q} | {r}", "W #x {q} {r} +y", "W ({q} | #x) {r}"]


def formula_of(where, var):
    """WhereOrFilter -> z3 Bool over tag variables (only tag atoms and nesting occur in these queries)"""
    ors = []
    for f in where.and_filters:
        conj = []
        for attr, sym in (("areas", "#"), ("contexts", "@"), ("people", "%"), ("projects", "+")):
            for t in getattr(f, attr):
                neg = t.startswith("-")
                v = var(sym + (t[1:] if neg else t))
                conj.append(z3.Not(v) if neg else v)
        for sub in f.or_filters:
            conj.append(formula_of(sub, var))
        assert not (f.allowed_note_types or f.priorities or f.property_filters or f.desc_filters or f.file_filters
                    or f.link_filters or f.create_date_ranges or f.modify_date_ranges)
        ors.append(z3.And(*conj) if conj else z3.BoolVal(True))
    return z3.Or(*ors)


class Vars:
    def __init__(self):
        self.v = {}

    def __call__(self, name):
        if name not in self.v:
            self.v[name] = z3.Bool(name)
        return self.v[name]


def compile_where(text):
    from zorg.service.compiler import build_zorg_query
    return build_zorg_query(text).where


def intended(ref_text, saved, var):
    """meaning of the referencing query: every {name} stands for the saved query's WHERE clause as a unit"""
    placeholders = {}
    text = ref_text
    for name in saved:
        if "{" + name + "}" in text:
            ph = "zz" + "".join(ch if ch.isalnum() else "_" for ch in name)
            placeholders["#" + ph] = name
            text = text.replace("{" + name + "}", "#" + ph)
    f = formula_of(compile_where(text), var)
    subs = []
    for tagname, name in placeholders.items():
        clause = saved[name]
        subs.append((var(tagname), intended("W " + clause, saved, var)
                     if "{" in clause else formula_of(compile_where("W " + clause), var)))
    return z3.substitute(f, *subs) if subs else f


def cases(tier):
    out = []
    for (cn, clause), wrap in itertools.product(CLAUSES.items(), WRAPS if tier != "quick" else WRAPS[:2]):
        for ref in REFS:
            out.append(("%s|%s|%s" % (cn, WRAPS.index(wrap), ref), {"q": (wrap.replace("{c}", clause), clause)}, ref))
    # nested references: q -> inner
    for cn, clause in CLAUSES.items():
        for outer in ("{inner} +z", "+z {inner}", "{inner} | +z", "+z ({inner} | %w)"):
            for ref in REFS[:6]:
                out.append(("nested-%s|%s|%s" % (cn, outer, ref),
                            {"q": ("S note W " + outer + " O alpha", outer), "inner": ("W " + clause + " G file", clause)}, ref))
    # two references in one query
    for (c1, cl1), (c2, cl2) in itertools.product(list(CLAUSES.items())[:4], list(CLAUSES.items())[1:5]):
        cl2r = cl2.replace("#a", "%d").replace("#b", "%e").replace("@c", "%f")
        for ref in REFS2:
            out.append(("two-%s-%s|%s" % (c1, c2, ref), {"q": ("W " + cl1, cl1), "r": ("W " + cl2r + " O alpha", cl2r)}, ref))
    # reference names as `zorg query -s` and users write them: dashes, sub-directories
    for nm in ("home-calls", "tmp/tmp_A1B", "a.b"):
        for cn in ("conj", "alt"):
            for ref in ("W #x {q}", "W {q} | #x"):
                out.append(("name-%s-%s|%s" % (nm, cn, ref), {nm: ("S note W " + CLAUSES[cn] + " O alpha", CLAUSES[cn])}, ref.replace("{q}", "{" + nm + "}")))
    # a diamond: one saved query reaches another along two paths (acyclic)
    out.append(("diamond", {"q": ("W {m} | {k}", "{m} | {k}"), "m": ("W #a {o}", "#a {o}"), "k": ("W @c {o} O alpha", "@c {o}"),
                            "o": ("S note W +d | %e G file", "+d | %e")}, "W #x {q}"))
    out.append(("diamond-top", {"m": ("W #a {o}", "#a {o}"), "k": ("W @c {o}", "@c {o}"), "o": ("W +d | %e", "+d | %e")}, "W {m} | {k} #x"))
    # a chain of depth 3
    out.append(("chain3", {"q": ("W #a {q2}", "#a {q2}"), "q2": ("W {q3} | #b", "{q3} | #b"), "q3": ("W @c | +d O alpha", "@c | +d")}, "W #x {q}"))
    return out


def expand_real(saved, ref):
    from zorg.service.swog._saved_queries import expand_saved_queries
    with zreal.TempZdir("c15e") as z:
        (z / "zoq").mkdir()
        for name, (line, _clause) in saved.items():
            (z / "zoq" / (name + ".zoq")).parent.mkdir(parents=True, exist_ok=True)
            (z / "zoq" / (name + ".zoq")).write_text("# " + line + "\n#\n# SAVED QUERY GENERATED ON 2024-01-01 AT 00:00:00.\n\n")
        return expand_saved_queries(z, ref)


def replay_assignment(saved, ref, assignment, expected_selected):
    """one note carrying exactly the tags that are true; run the real query through the real index"""
    from zorg.service.swog import execute
    tags = " ".join(t for t, val in sorted(assignment.items()) if val and not t[1:].startswith("zz"))
    with zreal.TempZdir("c15r") as z:
        (z / "zoq").mkdir()
        for name, (line, _clause) in saved.items():
            (z / "zoq" / (name + ".zoq")).parent.mkdir(parents=True, exist_ok=True)
            (z / "zoq" / (name + ".zoq")).write_text("# " + line + "\n")
        (z / "p.zo").write_text("# page\n\n- 240101#01 witness %s\n- 240101#02 bystander\n" % tags)
        zreal.create_db(z)
        out = execute(z, zreal.db_url(z), "S note " + ref + " O none")
    selected = "240101#01" in out
    return selected != expected_selected, selected


def z3_part(rep, tier):
    total = 0
    for name, saved, ref in cases(tier):
        var = Vars()
        t0 = time.time()
        try:
            expanded = expand_real(saved, ref)
            M = intended(ref, {k: v[1] for k, v in saved.items()}, var)
        except Exception as e:  # noqa
            rep.harness_error("case %s: %s: %s" % (name, type(e).__name__, e))
            continue
        if expanded is None or "{" in expanded:
            # the set is acyclic and every referenced page exists, yet the expansion failed / left a reference in place:
            # pick (z3) an assignment that violates the intended meaning and look at what the real query does with it
            total += 1
            s0 = z3.Solver()
            s0.add(z3.Not(M))
            for t in ("#x", "+y"):
                if t in ref:
                    s0.add(var(t))
            assignment = {}
            if str(s0.check()) == "sat":
                m0 = s0.model()
                assignment = {k: bool(m0.eval(v, model_completion=True)) for k, v in var.v.items()}
            rec = rep.add("equiv:" + name, "z3", "sat", "expansion of %r gives %r" % (ref, expanded), time.time() - t0, family="equiv",
                          witness=assignment)
            try:
                bad, selected = replay_assignment(saved, ref, assignment, False)
                err = None
            except Exception as e:  # noqa
                bad, selected, err = True, None, "%s: %s" % (type(e).__name__, e)
            rec["reproduced"] = bad
            if bad:
                rep.violation("query %r with the saved queries %r: %s" % (
                    ref, {k: v[0] for k, v in saved.items()},
                    ("fails with " + err) if err else "the reference is not expanded (%r) and a note with tags %r that violates the saved WHERE "
                    "clause is selected" % (expanded, sorted(t for t, x in assignment.items() if x))),
                    {"query": ref, "saved": {k: v[0] for k, v in saved.items()}, "expanded": expanded, "assignment": assignment, "error": err})
            else:
                rep.harness_error("unexpanded reference in %s but the real query behaves as intended" % name)
            continue
        try:
            E = formula_of(compile_where(expanded), var)
        except Exception as e:  # noqa
            rep.harness_error("case %s: %s: %s" % (name, type(e).__name__, e))
            continue
        s = z3.Solver()
        s.set("timeout", 20000)
        s.add(E != M)
        res = str(s.check())
        dt_ = time.time() - t0
        total += 1
        if res == "unsat":
            rep.add("equiv:" + name, "z3", "unsat", "expanded %r == intended meaning, for every tag assignment" % expanded, dt_, family="equiv")
        elif res == "sat":
            m = s.model()
            assignment = {k: bool(m.eval(v, model_completion=True)) for k, v in var.v.items()}
            want = bool(m.eval(M, model_completion=True))
            rec = rep.add("equiv:" + name, "z3", "sat", "expanded %r differs from the intended meaning under %r" % (expanded, assignment),
                          dt_, family="equiv", witness=assignment)
            try:
                bad, selected = replay_assignment(saved, ref, assignment, want)
            except Exception as e:  # noqa
                rep.harness_error("replay of %s crashed: %s: %s" % (name, type(e).__name__, e))
                continue
            rec["reproduced"] = bad
            if bad:
                rep.violation("query %r with saved %r: a note with tags %r is %s, but it %s the surrounding filter AND the saved WHERE clause" % (
                    ref, {k: v[0] for k, v in saved.items()}, sorted(t for t, x in assignment.items() if x),
                    "selected" if selected else "not selected", "satisfies" if want else "does not satisfy"),
                    {"query": ref, "saved": {k: v[0] for k, v in saved.items()}, "expanded": expanded, "assignment": assignment,
                     "selected": selected, "should_be_selected": want})
            else:
                rep.harness_error("z3 witness for %s did not reproduce on the real index" % name)
        else:
            rep.add("equiv:" + name, "z3", "inconclusive", res, dt_, family="equiv")
    return total


def history_part(rep):
    """saved query pages EDITED between two executions in one process and one directory: every expansion reflects the page
    as it is now (no stale copy), a deleted page is reported again, a page created after a failed lookup is found"""
    from zorg.service.swog._saved_queries import expand_saved_queries
    steps = [("write", {"q": "S note W #a O alpha", "inner": "W @c"}, "#a"), ("write", {"q": "W #b | +d G file"}, "#b | +d"),
             ("write", {"q": "W {inner} #a", "inner": "W @c | %e"}, "{inner} #a"), ("write", {"inner": "W +d"}, "{inner} #a"),
             ("delete", "q", None), ("write", {"q": "W !#a"}, "!#a")]
    ref = "W #x {q}"
    with zreal.TempZdir("c15h") as z:
        (z / "zoq").mkdir()
        current = {}
        for i, (op, arg, clause) in enumerate(steps):
            t0 = time.time()
            if op == "write":
                for name, line in arg.items():
                    (z / "zoq" / (name + ".zoq")).write_text("# " + line + "\n")
                    current[name] = line.split("W ", 1)[1].split(" O ")[0].split(" G ")[0]
            else:
                (z / "zoq" / (arg + ".zoq")).unlink()
                current.pop(arg)
            expanded = expand_saved_queries(z, ref)
            nm = "history:step%d-%s" % (i, op)
            if "q" not in current:
                ok = expanded is None
                rep.add(nm, "concrete+z3", "unsat" if ok else "sat", "reference to a deleted page: expansion %r" % (expanded,), time.time() - t0,
                        family="history")
                if not ok:
                    rep.violation("after deleting zoq/q.zoq the reference {q} still expands to %r (a missing saved query is silently accepted)" % expanded,
                                  {"steps": [str(s_) for s_ in steps[:i + 1]], "expanded": expanded})
                continue
            if expanded is None or "{" in expanded:
                rep.add(nm, "concrete+z3", "sat", "expansion %r" % (expanded,), time.time() - t0, family="history")
                rep.violation("after step %d (%s %r) the reference {q} expands to %r" % (i, op, arg, expanded),
                              {"steps": [str(s_) for s_ in steps[:i + 1]], "expanded": expanded})
                continue
            var = Vars()
            E = formula_of(compile_where(expanded), var)
            M = intended(ref, dict(current), var)
            sv = z3.Solver()
            sv.add(E != M)
            res = str(sv.check())
            rep.add(nm, "concrete+z3", "unsat" if res == "unsat" else "sat", "expanded %r vs saved pages %r" % (expanded, current),
                    time.time() - t0, family="history")
            if res != "unsat":
                rep.violation("after step %d (%s %r) the reference {q} filters like %r, the saved pages now say %r (stale saved query)" % (
                    i, op, arg, expanded, current), {"steps": [str(s_) for s_ in steps[:i + 1]], "expanded": expanded, "pages": current})


def xh_replayer(name, args, kwargs, meta):
    import importlib.util
    spec = importlib.util.spec_from_file_location("c15_h_tbl", H)
    m = importlib.util.module_from_spec(spec)
    spec.loader.exec_module(m)
    from zorg.service.swog._saved_queries import _get_saved_where_filter, expand_saved_queries
    with zreal.TempZdir("c15x") as z:
        (z / "zoq").mkdir()
        if name == "scan":
            si, wi, oi, gi, og, extra = args
            text = m.line(si, wi, oi, gi, og) + ("\n#\n# SAVED QUERY GENERATED ON 2024-01-01.\n\n- 240101#01 W x O y\n" if extra else "")
            (z / "zoq" / "q.zoq").write_text(text)
            got = _get_saved_where_filter(z, "q")
            return got != m.W_WORDS[wi], {"summary": "saved query page %r: WHERE words %r, expected %r" % (text, got, m.W_WORDS[wi])}
        if name == "missing":
            present, depth, wi = args
            for k in range(depth):
                (z / "zoq" / ("q%d.zoq" % k)).write_text("# W #t%d {q%d} O alpha" % (k, k + 1))
            if present:
                (z / "zoq" / ("q%d.zoq" % depth)).write_text("# S note W " + m.W_WORDS[wi] + " G file")
            got = expand_saved_queries(z, "S note W #x {q0} G file")
            if not present:
                return got is not None, {"summary": "reference chain of depth %d with a missing last link expands to %r instead of failing" % (depth, got)}
            want_words = ["#x"] + ["#t%d" % k for k in range(depth)] + m.W_WORDS[wi].replace("(", "").replace(")", "").split(" ")
            ok = got is not None and "{" not in got and got.startswith("S note W #x ") and got.endswith(" G file") and \
                got[len("S note W "):-len(" G file")].replace("(", "").replace(")", "").split(" ") == want_words
            return (not ok), {"summary": "chain of depth %d expands to %r (words expected: %r)" % (depth, got, want_words)}
    return False, {"summary": "no replayer for " + name}


def main():
    tier = sys.argv[1] if len(sys.argv) > 1 else "quick"
    seed = int(sys.argv[2]) if len(sys.argv) > 2 else 0
    rep = Report("C15", tier, seed)
    rep.describe(
        explanation=(
            "z3 propositional equivalence: the real expand_saved_queries (on real .zoq files) and the real query compiler produce "
            "the WhereOrFilter of the expanded query; with distinct tag atoms 'every index' is exactly 'every truth assignment', so "
            "E <-> M (M = surrounding filter with the reference standing for the saved WHERE clause as a unit, recursively) is "
            "decided by z3 for every case; a model is replayed as a real index with one note carrying exactly the true tags. "
            "CrossHair on the word scan of a saved query's first line (S/O/G clauses around W, either order, further page lines) "
            "and on reference chains of depth <= 3 with a missing last link (expansion fails, execute_with_session raises)."),
        functions=["zorg.service.swog._saved_queries.expand_saved_queries/_get_saved_where_filter/_get_saved_query_names/_parenthesize",
                   "zorg.service.swog._executor.execute_with_session (failure path)", "build_zorg_query / ZorgQueryCompiler (concretely, "
                   "on the expanded text)"],
        stubs=["XH part: in-memory FS behind c.prepend_zdir", "z3 part: none (real files, real parser); atoms restricted to tags"],
        bounds=["%d saved clause shapes x %d wrappings (S/O/G) x %d reference positions; nested references (4 outer shapes); two "
                "references per query; a chain of depth 3" % (len(CLAUSES), 2 if tier == "quick" else len(WRAPS), len(REFS))],
        outside=["cyclic sets (excluded by the quantifier)", "atoms other than tags in the semantic part (their meaning is C03/C04's subject)",
                 "reference names beyond the spellings q / home-calls / tmp/tmp_A1B / a.b"])
    n = z3_part(rep, tier)
    rep.note("%d equivalence queries" % n)
    history_part(rep)
    T = 120 if tier == "quick" else 300
    conds = [xh.Cond(H, "scan", timeout=T, meta={"family": "xh"}), xh.Cond(H, "missing", timeout=T, meta={"family": "xh"}),
             xh.Cond(H, "scan", timeout=30, twin=True, meta={"family": "twin"})]
    results = xh.run_all(conds)
    handle_xh(rep, results, xh_replayer)
    rep.sample({"saved": {"q": "S note W #a | #b O alpha G file"}, "query": "W #x {q}", "intended": "#x AND (#a OR #b)"})
    sys.exit(rep.finish())


if __name__ == "__main__":
    main()
