"""C12 — A note's text form compiles back to the same note.   (DESIGN.md §3)

Skeleton + holes, twice: the page S is compiled under symbolic hole texts; the text zorg emits for each
note (Note.to_string / _select_note) must equal - as a string - the rendering of the canonical page S'
computed from the abstract page, and compiling S' (real parse of S', symbolic walk) must give the same
note.  For multi-item pages the ungrouped selection under five orderings placed under a page header must
be a valid page whose notes are the selected notes.
Replay: real files: compile, emit, write the emitted text as a page, compile again.
"""
import os as _os
_os.environ["XH_NO_PATCH"] = "1"   # this process replays on the real code: never patch zorg here

import os
import shutil
import sys

from vlib import skel, xh
from vlib.driver import Report, handle_xh, known_findings
from harness import c01_common as cm
from harness.c01 import generate, real_compile, values_from_call

HEADER = ("from harness.c12_rt import *  # noqa: F401,F403\n"
          "from harness.c12_rt import SPECS, cm, check_c12, check_selection\n")
ORDER_NAMES = ["none", "alpha", "type priority", "create", "modify alpha"]


def substituted(spec, vals):
    text, holes = skel.assemble(spec.parts())
    out, pos = "", 0
    for off, h in holes:
        out += text[pos:off] + vals[h.name]
        pos = off + len(h.default)
    return out + text[pos:]


def same_note(a, b, kind):
    va, vb = cm.note_view(a), cm.note_view(b)
    if va["kind"] != vb["kind"] or va["zid"] != vb["zid"] or va["body"] != vb["body"]:
        return "kind/ZID/body: %r vs %r" % ((va["kind"], va["zid"], va["body"]), (vb["kind"], vb["zid"], vb["body"]))
    if va["zid"] is not None and (va["create"] != vb["create"] or va["modify"] != vb["modify"]):
        return "dates: %r vs %r" % ((va["create"], va["modify"]), (vb["create"], vb["modify"]))
    if kind not in ("x", "~") and va["priority"] != vb["priority"]:
        return "priority %r vs %r" % (va["priority"], vb["priority"])
    for attr in ("areas", "contexts", "people", "projects", "links"):
        if sorted(getattr(a, attr)) != sorted(getattr(b, attr)):
            return "%s %r vs %r" % (attr, getattr(a, attr), getattr(b, attr))
    if dict(a.properties) != dict(b.properties):
        return "properties %r vs %r" % (a.properties, b.properties)
    return None


def make_replayer(specs, tier, sel_specs):
    def replayer(name, args, kwargs, meta):
        from zorg.domain.types import OrderByType
        from zorg.service.swog import _executor as ex
        orders = [(OrderByType.NONE,), (OrderByType.ALPHA,), (OrderByType.NOTE_TYPE, OrderByType.PRIORITY),
                  (OrderByType.CREATE_DATE,), (OrderByType.MODIFY_DATE, OrderByType.ALPHA)]
        selection = meta.get("selection")
        if selection is not None:
            k = int(name.split("_")[1])
            spec = sel_specs[k]
            args = list(args)
            order_i = args.pop()
            vals = values_from_call(spec, args, tier) if spec.holes() else {}
        else:
            if name.startswith(("grp_", "kf_")):
                k = meta["members"][args[0]]
            else:
                k = int(name.split("_")[1])
            spec = specs[k]
            vals = values_from_call(spec, list(args), tier) if spec.holes() else {}
        text = substituted(spec, vals)
        page, err = real_compile(text)
        if err or page.has_errors:
            return True, {"summary": "page %r does not compile: %s" % (text, err or "has_errors")}
        notes = list(page.notes)
        kinds = [it.kind for it, _ln in spec.items()]
        if selection is None:
            for n, kind in zip(notes, kinds):
                emitted = "# h\n\n" + n.to_string()
                page2, err2 = real_compile(emitted)
                if err2 or page2.has_errors or len(page2.notes) != 1:
                    return True, {"summary": "note of %r is emitted as %r, which compiles to %s" % (
                        text, n.to_string(), err2 or ("%d notes, has_errors=%s" % (len(page2.notes), page2.has_errors)))}
                why = same_note(n, page2.notes[0], kind)
                if why:
                    return True, {"summary": "note of %r is emitted as %r and compiles back differently: %s" % (text, n.to_string(), why)}
            return False, {"summary": "round trip holds for %r" % text}
        ordered = ex._order_notes_by(notes, orders[order_i])
        emitted = "# h\n\n" + "\n".join(ex._select_note(ordered)) + "\n"
        page2, err2 = real_compile(emitted)
        if err2 or page2.has_errors or len(page2.notes) != len(notes):
            return True, {"summary": "selection O %s of %r is emitted as %r, which compiles to %s" % (
                ORDER_NAMES[order_i], text, emitted, err2 or ("%d notes, has_errors=%s" % (len(page2.notes), page2.has_errors)))}
        for n, m in zip(ordered, page2.notes):
            kind = kinds[[i for i, x in enumerate(notes) if x is n][0]]
            why = same_note(n, m, kind)
            if why:
                return True, {"summary": "selection O %s of %r emitted as %r: a note compiles back differently: %s" % (
                    ORDER_NAMES[order_i], text, emitted, why)}
        return False, {"summary": "selection round trip holds"}
    return replayer


def main():
    tier = sys.argv[1] if len(sys.argv) > 1 else "quick"
    seed = int(sys.argv[2]) if len(sys.argv) > 2 else 0
    rep = Report("C12", tier, seed)
    all_specs = cm.all_specs(tier, seed)
    specs = [s for s in all_specs if s.name.startswith(("core-", "layout-", "multi-", "first-", "second-"))]
    gdir, path, _s, entries = generate(tier, seed, check_fn="check_c12", specs=specs, modname="c12_gen", header=HEADER)
    # selections: multi-item pages, the ordering index is an extra argument
    from vlib import gen
    multi = [(k, s) for k, s in enumerate(specs) if s.name.startswith("multi-")]
    funcs = []
    for k, s in multi:
        args, pres, vals = [], [], []
        for h in s.holes():
            a_, p_, v_ = cm.wrapper_args(h, cm.MAXLEN[tier])
            args += a_
            pres += p_
            vals.append('"%s": %s' % (h.name, v_))
        funcs.append(("sel_%d" % k, args + [("order", "int")], pres + ["0 <= order < 5"],
                      ["return V(check_selection(%d, {%s}, cm.pick([0, 1, 2, 3, 4], order)))" % (k, ", ".join(vals))]))
    kf_members = [k for k, s in enumerate(specs) if s.name in ("first-todox-pri-plain-1", "first-todo~-pri-plain-1")]
    funcs.append(("kf_1", [("i", "int")], ["0 <= i < %d" % len(kf_members)], ["return V(check_c12(cm.pick(%r, i), {}))" % kf_members]))
    path2 = gen.write_module(os.path.join(gdir, "c12_sel.py"), HEADER, funcs)
    try:
        rep.describe(
            explanation=(
                "Skeleton + holes, twice: %d pages of the C01 sets (core, layout-token, first-word vocabulary, seeded multi-item) "
                "are compiled under symbolic hole texts; for every note the emitted text (Note.to_string) must equal the "
                "rendering of the canonical one-item page computed from the abstract page, and the real compile of that page "
                "(concrete parse, symbolic walk) must return a note with the same kind, ZID, body, own tags/links/properties, "
                "dates when a ZID is present and priority unless done/cancelled; for the %d multi-item pages the ungrouped "
                "selection under 5 orderings (_order_notes_by + _select_note) under a page header must be a valid page "
                "whose notes are the selected notes." % (len(specs), len(multi))),
            functions=["zorg.domain.models.Note.to_string", "zorg.service.swog._executor._select_note/_order_notes_by/_order_by_keyfunc",
                       "ZorgFileCompiler + ParseTreeWalker (twice per condition)", "ZorgFileLexer/ZorgFileParser (concretely, both pages)"],
            stubs=["strptime model, clock, loggers (as C01)"],
            bounds=["the C01 skeleton sets restricted to pages without sections; hole classes as in C01; orderings: none, alpha, "
                    "type+priority, create, modify+alpha"],
            outside=["refresh_zoq_file_with_session's header assembly (clock, file I/O); grouped renderings (C09)",
                     "notes the compiler cannot produce; bodies beyond the skeleton vocabulary"])
        kf_active, _ = known_findings("C12")
        kf_ids = {e["id"] for e in kf_active}
        T = 90 if tier == "quick" else 300
        env = {"XH_TIER": tier, "XH_SEED": seed, "XH_KNOWN": ",".join(sorted(kf_ids))}
        conds = []
        skipped = 0
        for ei, (fname, members) in enumerate(entries):
            s = specs[members[0]]
            if tier == "quick" and s.name.startswith("core-") and (ei // 2 + ei % 2 + seed) % 2:
                # quick: every second core page (rotating with the seed); thorough: all. The core set alternates one-line /
                # multi-line pages, so a plain (ei + seed) % 2 kept ONLY the one-line ones for an even seed: pair-wise now
                skipped += 1
                continue
            conds.append(xh.Cond(path, fname, timeout=T * 2 if s.name.startswith("layout-") else T, env=env,
                                 meta={"variant": s.name if len(members) == 1 else s.name.rsplit("-", 1)[0] + "-*",
                                       "family": "roundtrip-" + s.name.split("-")[0], "members": members}))
        for mi, (k, s) in enumerate(multi):
            if tier == "quick" and (mi + seed) % 3:
                skipped += 1          # quick: every third multi-item page for the selection clause
                continue
            conds.append(xh.Cond(path2, "sel_%d" % k, timeout=T * 2, env=env,
                                 meta={"variant": s.name, "family": "selection", "selection": True}))
        if "KF-C12-1" in kf_ids:
            conds.append(xh.Cond(path2, "kf_1", timeout=60, env=dict(env, XH_KNOWN=""),
                                 meta={"family": "known", "known_finding": "KF-C12-1", "members": kf_members, "variant": "kf"}))
        conds.append(xh.Cond(path, entries[0][0], timeout=40, twin=True, env=env, meta={"variant": specs[0].name, "family": "twin"}))
        rep.note("quick tier: %d conditions skipped by the seeded rotation (all run in the thorough tier)" % skipped)
        results = xh.run_all(conds)
        handle_xh(rep, results, make_replayer(specs, tier, specs))
        rep.sample({"page": skel.assemble(specs[21].parts())[0], "holes": [repr(h) for h in specs[21].holes()]})
    finally:
        shutil.rmtree(gdir, ignore_errors=True)
    sys.exit(rep.finish())


if __name__ == "__main__":
    main()
