"""C13 — Re-running an interrupted index operation converges.   (DESIGN.md §17)

CrossHair conditions (harness/c13_h.py): the real messagebus loop + reindex_database / create_database + ZID write-back,
run over a transactional recording session and an in-memory FS in which the CRASH POINT is a symbolic variable: the run is
killed before effect k (torn: in the middle of file write k), the same command is run again, and the end state must be
the one the statement demands.  Pre-states: every pair of per-page states satisfying the C06 invariants.
Replay: a real directory put into the witness state, the real command killed (os._exit) at every real effect boundary in
turn (vlib/crashrun.py), the real command run again, compared with a fresh `db create` on a copy of the final files.
"""
import os as _os
_os.environ["XH_NO_PATCH"] = "1"   # this process replays on the real code: never patch zorg here

import hashlib
import importlib.util
import json
import os
import shutil
import subprocess
import sys
import tempfile

from vlib import xh, zreal
from vlib.driver import Report, handle_xh, known_findings

HDIR = os.path.dirname(os.path.abspath(__file__))
H = os.path.join(HDIR, "c13_h.py")
HR = os.path.join(HDIR, "c13_real_h.py")
CRASHRUN = os.path.join(os.path.dirname(HDIR), "vlib", "crashrun.py")
FREEZE = "2024-05-10 10:00:00"
_M = [None]


def _load():
    if _M[0] is None:
        os.environ.setdefault("XH_KNOWN", "")
        spec = importlib.util.spec_from_file_location("c13_h_tbl", H)
        m = importlib.util.module_from_spec(spec)
        spec.loader.exec_module(m)
        _M[0] = m
    return _M[0]


def sha(text):
    return hashlib.sha256(text.encode()).hexdigest()


def _crashrun(z, k, torn, cmd, rels):
    env = dict(os.environ)
    env["PYTHONPATH"] = os.pathsep.join([os.environ.get("ZORG_SRC", "/repo/src"), os.path.dirname(HDIR)])
    p = subprocess.run([sys.executable, CRASHRUN, str(z), str(k), "1" if torn else "0", cmd, FREEZE] + list(rels),
                       capture_output=True, text=True, timeout=300, env=env)
    n, log = None, []
    for ln in p.stderr.splitlines():
        if ln.startswith("EFFECTS "):
            parts = ln.split(" ")
            n, log = int(parts[1]), parts[2:]
    return p.returncode, n, log, p.stderr[-600:]


def _put_state(z, m, states):
    """index state first (db create of the INDEX texts), then the files, the hash map and an empty ZID counter"""
    for j, (name, (f, i, h)) in enumerate(zip(m.NAMES, states)):
        if m.INDEX_STATES[i]:
            (z / name).parent.mkdir(parents=True, exist_ok=True)
            (z / name).write_text(m.TEXTS[j][m.INDEX_STATES[i]])
    zreal.create_db_subprocess(z, FREEZE)
    hm = {}
    for j, (name, (f, i, h)) in enumerate(zip(m.NAMES, states)):
        p = z / name
        if not m.FILE_STATES[f]:
            if p.exists():
                p.unlink()
        else:
            p.parent.mkdir(parents=True, exist_ok=True)
            p.write_text(m.TEXTS[j][m.FILE_STATES[f]])
        if m.HASH_STATES[h]:
            hm[name] = sha(m.TEXTS[j][m.HASH_STATES[h]])
    (z / ".zorg" / "file_hash.json").write_text(json.dumps(hm))
    (z / ".zorg" / "next_ids.json").write_text("{}")


def _files(z):
    return {str(p.relative_to(z)): p.read_text() for p in z.rglob("*.zo")}


def _views(z):
    return [(v["page"], v["line_no"], v["zid"], v["body"]) for v in zreal.db_note_views(z)]


def _judge(w, m, originals, cmd, rels, uninterrupted=None):
    files = _files(w)
    idx = _views(w)
    if uninterrupted is not None:
        for n in (sorted(set(files) | set(uninterrupted)) if (cmd == "create" or not rels) else list(rels)):
            a, b = files.get(n), uninterrupted.get(n)
            if (a is None) != (b is None) or (a is not None and m.mask_new_zids(a) != m.mask_new_zids(b)):
                return "page %s differs from what an uninterrupted run leaves: %r vs %r" % (n, a, b)
    with zreal.TempZdir("c13f") as f:
        shutil.copytree(w, f, dirs_exist_ok=True)
        zreal.create_db_subprocess(f, FREEZE)
        fresh, fresh_files = _views(f), _files(f)
    scope = sorted(files) if (cmd == "create" or not rels) else list(rels)
    for n in scope:
        if files.get(n) != fresh_files.get(n):
            return "page %s still waits for a write-back: file %r, after a fresh `db create` %r" % (n, files.get(n), fresh_files.get(n))
        if [v for v in idx if v[0] == n] != [v for v in fresh if v[0] == n]:
            return "index and file disagree for %s: index %r, fresh index of the same files %r" % (
                n, [v[3] for v in idx if v[0] == n], [v[3] for v in fresh if v[0] == n])
    if cmd == "create" or not rels:
        if sorted({v[0] for v in idx}) != sorted({v[0] for v in fresh}):
            return "indexed pages %r, a fresh index has %r" % (sorted({v[0] for v in idx}), sorted({v[0] for v in fresh}))
        try:
            hm = json.loads((w / ".zorg" / "file_hash.json").read_text())
        except ValueError:
            return "the hash map is not valid JSON after the re-run"
        if hm != {n: sha(t) for n, t in files.items()}:
            return "the hash map does not describe the files"
    zids = [v[2] for v in idx if v[2]]
    if len(zids) != len(set(zids)):
        return "a ZID is assigned to two notes: %r" % (zids,)
    for n, t in originals.items():
        if n not in files:
            return "page %s vanished" % n
        if m.strip_zids(files[n]) != m.strip_zids(t):
            return "user text of %s changed: %r -> %r" % (n, t, files[n])
    return ""


_ADM = {}


def _adm(n):
    if n not in _ADM:
        _ADM[n] = tuple(xh.eval_in_harness(H, "list(ADM[%d])" % n))
    return _ADM[n]


REAL_TABLE = []


def build_real_table(m, tier, seed):
    """schedules of the REAL runs: (state triple, boundary k between two real effects[, torn]) - the effect logs come from
    uninterrupted real runs (in parallel worker processes), so the table follows the current source"""
    import concurrent.futures as cf
    from vlib import gen
    ntr = len(m.VALID) * len(m.VALID) * 4
    stride = 150 if tier == "quick" else 1
    idxs = [i for i in range(ntr) if i % stride == seed % stride]
    if stride > 1:
        # ... plus, always, every per-page state next to an absent, unindexed second page under a plain `db reindex`
        nv = len(m.VALID)
        empty = m.VALID.index((0, 0, 0))
        idxs = sorted(set(idxs) | {(a * nv + empty) * 4 + 0 for a in range(nv)})
    chunks = [idxs[i::16] for i in range(16)]
    logs = []
    with cf.ThreadPoolExecutor(max_workers=16) as ex:
        for part in ex.map(lambda ch: xh.eval_in_harness(HR, "effect_logs(%r)" % (ch,), timeout=1200) if ch else [], chunks):
            logs.extend(part)
    table = []
    for a, b, mode, log in sorted(logs):
        for k in range(len(log) + 1):
            table.append([a, b, mode, k, 0])
            if k < len(log) and log[k] in ("write_text", "open_w"):
                table.append([a, b, mode, k, 1])
    d = gen.gen_dir()
    path = os.path.join(d, "c13_real_table.json")
    json.dump(table, open(path, "w"))
    return path, table, len(idxs)


def replayer(name, args, kwargs, meta):
    m = _load()
    if name == "converge_real":
        # the condition already ran the real code; run the same schedule once more in THIS (unpatched) process and report
        s0, s1, mode, k, torn = REAL_TABLE[args[0]]
        from vlib import crashreal
        cmd = "create" if mode == 3 else "reindex"
        rels = [[], [m.NAMES[0]], [m.NAMES[1]], []][mode]
        why = crashreal.schedule(m.NAMES, m.TEXTS, (m.VALID[s0], m.VALID[s1]), (m.FILE_STATES, m.INDEX_STATES, m.HASH_STATES),
                                 cmd, rels, k, bool(torn), m.strip_zids, m.mask_new_zids)
        states = (m.VALID[s0], m.VALID[s1])
        desc = "files=%r index=%r hash entries=%r; real `db %s%s` killed %s real effect %d, then the same command again" % (
            [m.TEXTS[j][m.FILE_STATES[s[0]]] for j, s in enumerate(states)],
            [m.TEXTS[j][m.INDEX_STATES[s[1]]] for j, s in enumerate(states)],
            [m.TEXTS[j][m.HASH_STATES[s[2]]] for j, s in enumerate(states)], cmd, "".join(" " + r for r in rels),
            "in the middle of" if torn else "before", k)
        return bool(why), {"summary": desc + ": " + (why or "as the statement demands"), "why": why}
    s0, s1, mode, k, torn = _adm(args[0])
    states = (m.VALID[s0], m.VALID[s1])
    cmd = "create" if mode == 3 else "reindex"
    rels = [[], [m.NAMES[0]], [m.NAMES[1]], []][mode]
    desc = "files=%r index=%r hash entries=%r; `db %s%s`" % (
        [m.TEXTS[j][m.FILE_STATES[s[0]]] for j, s in enumerate(states)],
        [m.TEXTS[j][m.INDEX_STATES[s[1]]] for j, s in enumerate(states)],
        [m.TEXTS[j][m.HASH_STATES[s[2]]] for j, s in enumerate(states)], cmd, "".join(" " + r for r in rels))
    base = tempfile.mkdtemp(prefix="c13b")
    try:
        b = zreal.Path(base) / "z"
        b.mkdir()
        _put_state(b, m, states)
        originals = _files(b)
        with zreal.TempZdir("c13n") as w:
            shutil.copytree(b, w, dirs_exist_ok=True)
            rc, n, log, err = _crashrun(w, -1, False, cmd, rels)
            unint = _files(w)
        if rc != 0 or n is None:
            return False, {"summary": desc + ": the uninterrupted real run failed: " + err}
        for j in range(n):
            with zreal.TempZdir("c13w") as w:
                shutil.copytree(b, w, dirs_exist_ok=True)
                rc, _, _, err = _crashrun(w, j, torn, cmd, rels)
                if rc != 77:
                    continue
                rc2, _, _, err2 = _crashrun(w, -1, False, cmd, rels)
                where = "killed %s real effect %d of %d (%s; effects so far: %s)" % (
                    "in the middle of" if torn and log[j] in ("write_text", "open_w") else "before", j, n, log[j], " ".join(log[:j]) or "none")
                if rc2 != 0:
                    why = "the re-run fails: " + err2.strip().splitlines()[-1][:300]
                else:
                    why = _judge(w, m, originals, cmd, rels, unint)
                if why:
                    return True, {"summary": "%s, %s, then the same command again: %s" % (desc, where, why),
                                  "crash_effect": j, "effect_kind": log[j], "torn": bool(torn), "why": why}
        return False, {"summary": desc + ": no real crash point (0..%d%s) reproduces" % (n - 1, ", torn" if torn else "")}
    finally:
        shutil.rmtree(base, ignore_errors=True)


def main():
    tier = sys.argv[1] if len(sys.argv) > 1 else "quick"
    seed = int(sys.argv[2]) if len(sys.argv) > 2 else 0
    rep = Report("C13", tier, seed)
    m = _load()
    nv = len(m.VALID)
    rep.describe(
        explanation=(
            "CrossHair/z3 over the crash schedule of the real message-bus loop, reindex_database / create_database, the ZID "
            "write-back and the modify-date stamping: the solver chooses pre-state, command and crash point, the real code runs "
            "for that choice - the run is killed before external effect k (a session "
            "commit, a write of next_ids.json / the hash map / the whitelist / a page; thorough tier: also in the middle of a "
            "file write), then the same command runs again from what was left behind and must complete and end in the state "
            "the statement demands (index == files, every note stamped, hash map describes the files, no ZID twice, no user "
            "text lost). Pre-states: every pair of per-page states satisfying the C06 invariants, so the claim composes with "
            "C06's induction."),
        functions=["zorg.service.messagebus._handle/_handle_message/_handle_command/_handle_event",
                   "zorg.service.handlers.reindex_database/create_database/_get_file_hash_map/_get_zo_paths_to_index/"
                   "_write_file_hash_to_disk/_get_error_file_whitelist/add_zids_to_notes_in_file/_update_zo_file/_add_zid_to_line",
                   "zorg.service.handlers._check_for_modified_notes/update_note_modify_dates/_add_or_update_modify_date", "zorg.storage.sql._repo._add_zids", "zorg.storage.sql._zid_manager.ZIDManager.get_next/_write_to_disk/_next_id_map",
                   "zorg.storage.sql._session.SQLSession.collect_new_messages/add_message (unbound, on the recording session)"],
        stubs=["transactional recording session: index = page name -> note bodies, durable at commit, dropped at rollback/crash "
               "(the SQL-level content of a page and remove_file_by_name's partial commits of tag rows are NOT claimed)",
               "walk_zorg_page = reader of three-line pages (one note per page); remove_file_by_name hands back the page as the model "
               "index holds it, so the real _check_for_modified_notes decides the stamping",
               "in-memory FS: a write is atomic (quick) or torn to its first half (thorough); a torn JSON file does not parse; "
               "_hash_file = identity; console silent; clock fixed at 2024-05-10"],
        bounds=["2 pages; per page: file in {absent, v1, v2, page with a ZID-less note, page with an edited note AND a ZID-less "
                "note (two write-backs queued)}, index/hash entry in {absent, v1, v2, stamped yesterday}: %d invariant-satisfying per-page states, all %d pairs x {db reindex, db reindex <page a>, "
                "db reindex <page b>, db create} x every boundary between two external effects of that run (and past the last one) x {atomic, "
                "torn} for file writes" % (nv, nv * nv)],
        outside=["crashes inside SQLite / the OS (a commit and a non-torn write are atomic here)", "more than 2 pages / 2 notes per page",
                 "a crash DURING the re-run (the statement asks for one interruption)"])
    kf_active, _ = known_findings("C13")
    kf_ids = {e["id"] for e in kf_active}
    T = 200 if tier == "quick" else 600
    env0 = {"XH_KNOWN": ",".join(sorted(kf_ids))}
    n_atomic, n_all = xh.eval_in_harness(H, "[len(ADM_ATOMIC), len(ADM)]", env0)
    rep.note("crash schedules: %d with atomic writes, %d with a torn file write" % (n_atomic, n_all - n_atomic))
    # (both tiers run every schedule of the model table)
    conds = []
    step = 3000
    for lo in range(0, n_all, step):
        hi = min(n_all, lo + step)
        conds.append(xh.Cond(H, "converge", timeout=T, env=dict(env0, XH_N="%d-%d" % (lo, hi)),
                             cc={"ranges": [[lo, hi]], "max": 300 if tier == "quick" else 800, "replays": 1},
                             meta={"variant": "n[%d:%d]" % (lo, hi), "family": "converge",
                                   "no_replayer_selftest": lo not in (0, (n_atomic // step) * step),   # a real replay costs ~1 min
                                   "bound": "crash schedules %d..%d (%s)" % (lo, hi - 1, "atomic writes" if hi <= n_atomic else
                                                                              "torn writes" if lo >= n_atomic else "atomic + torn")}))
    if "KF-C13-1" in kf_ids:
        conds.append(xh.Cond(H, "kf_1", timeout=T, env=dict(env0, XH_N="0-%d" % n_atomic),
                             meta={"family": "known", "known_finding": "KF-C13-1"}))
    conds.append(xh.Cond(H, "converge", timeout=30, twin=True, env=dict(env0, XH_N="100-140"), meta={"variant": "n[100:140]", "family": "twin"}))
    # family converge_real: the same schedules over the REAL zorg (SQLite, SQLRepo, ANTLR compiler) in a temp directory
    tpath, table, ntriples = build_real_table(m, tier, seed)
    REAL_TABLE[:] = table
    stride = 1 if tier == "quick" else 6
    rep.note("real-run family: %d state triples (%s), %d schedules, every %s one run" % (
        ntriples, "every 150th, rotated by the seed, plus every per-page state beside an empty second page" if tier == "quick" else "all", len(table), "" if stride == 1 else "6th"))
    envr = {"XH_TABLE": tpath, "XH_STRIDE": stride, "XH_OFFSET": seed}
    rstep = max(1, (len(table) + 15) // 16)
    for lo in range(0, len(table), rstep):
        hi = min(len(table), lo + rstep)
        conds.append(xh.Cond(HR, "converge_real", timeout=1500 if tier == "quick" else 3600, path_timeout=120,
                             env=dict(envr, XH_N="%d-%d" % (lo, hi)), cc=False,
                             meta={"variant": "n[%d:%d]" % (lo, hi), "family": "converge_real",
                                   "bound": "real-run schedules %d..%d of %d" % (lo, hi - 1, len(table))}))
    conds.append(xh.Cond(HR, "converge_real", timeout=120, twin=True, env=dict(envr, XH_N="0-8", XH_STRIDE=1), meta={"variant": "n[0:8]", "family": "twin"}))
    results = xh.run_all(conds)
    handle_xh(rep, results, replayer)
    rep.sample({"pre_state": "page a.zo holds a ZID-less note, nothing indexed", "run": "db reindex killed before effect 3, then db reindex"})
    sys.exit(rep.finish())


if __name__ == "__main__":
    main()
