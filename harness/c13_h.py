"""C13 CrossHair harness: re-running an interrupted index operation converges.

Real code under symbolic execution: zorg.service.messagebus._handle / _handle_message / _handle_command / _handle_event
(the queue discipline: commands, then the events of the pages seen), COMMAND_HANDLERS[ReindexDBCommand] /
[CreateDBCommand] = reindex_database / create_database with their helpers, the write-back that follows (real _add_zids ->
NewZorgNotesEvent -> add_zids_to_notes_in_file -> _update_zo_file incl. its hash refresh), the modify-date stamping
(real _check_for_modified_notes -> ModifiedZorgNotesEvent -> update_note_modify_dates -> _update_zo_file), ZIDManager.get_next /
_write_to_disk, SQLSession.collect_new_messages / add_message (borrowed unbound).

The CRASH POINT is a symbolic variable: every external effect of the run - a commit of the session, a write of
next_ids.json, of the hash map, of the whitelist, of a .zo page - passes a counter; the run is killed (hx.Crash, a
BaseException) immediately BEFORE effect number k, or, for a file write in the torn variant, after half of it.  Then the
same command runs again in a "new process" (fresh session object, in-memory events lost, durable index + files as left
behind) and the end state is compared with what the statement demands.

Stubs: transactional recording session (index: page name -> note bodies; changes are durable at commit, dropped at
rollback / crash; the SQL-level content of a page, remove_file_by_name's partial commits of tag rows are NOT claimed),
walk_zorg_page = reader of three-line pages, in-memory FS (a write is atomic, or torn in the torn variant), json shim (a torn JSON
file does not parse), _hash_file = identity, console silent, clock fixed.
"""
import os
from pathlib import Path

from crosshair.tracers import NoTracing

from vlib import hx
from vlib.hx import V
from zorg.domain.messages import commands
from zorg.domain.models import H1, Block, Note, Page
from zorg.service import handlers as hd
from zorg.service import messagebus as mb
from zorg.shared import common as c
from zorg.storage.sql import SQLSession
from zorg.storage.sql import _repo as rp
from zorg.storage.sql import _zid_manager as zm

hx.stub_loggers()
hx.put(hd, "json", hx.JsonShim)
hx.put(zm, "json", hx.JsonShim)
hx.put(hd, "_hash_file", lambda p, chunk_size=8192: "H(" + p.read_text() + ")")
hx.put(hd, "tqdm", lambda it, **k: it)
hx.put(c, "zprint", lambda *a, **k: None)
hx.patch_clock(hd)
KNOWN = set(x for x in os.environ.get("XH_KNOWN", "").split(",") if x)

from harness.c13_common import *  # noqa: F401,F403  (NAMES, TEXTS, *_STATES, MAXK, VALID, bodies, zid_of, mdate_of, strip_zids)
from harness.c13_common import MAXK, NAMES, TEXTS, FILE_STATES, INDEX_STATES, HASH_STATES, VALID, bodies, zid_of, mdate_of, strip_zids, mask_new_zids  # noqa: F401


def _note(b, p, line_no):
    import datetime as dt
    zid, md = zid_of(b), mdate_of(b)
    day = lambda s: dt.date(2000 + int(s[0:2]), int(s[2:4]), int(s[4:6]))   # noqa: E731
    created = day(zid) if zid else hx.FixedDate.TODAY
    return Note(b, file_path=p, line_no=line_no, zid=zid, create_date=created, modify_date=day(md) if md else created)


def fake_walk(zdir, path, verbose=False):
    p = path if str(path).startswith("/z/") else zdir / str(path)
    text = p.read_text()
    page = Page(p)
    notes = []
    for i, ln in enumerate(text.split("\n")):
        if ln.startswith("- "):
            notes.append(_note(ln[2:], p, i + 1))
    page.h0 = H1("", [Block(notes=notes)])
    return page


hx.put(hd, "walk_zorg_page", fake_walk)


class FX:
    """the crash schedule of the current run"""
    n = 0          # effects passed so far
    k = -1         # kill before effect k (-1: never)
    torn = False   # ... or, if effect k is a file write, in the middle of it
    log = []


def effect(kind):
    if FX.n == FX.k:
        raise hx.Crash(kind)
    FX.n += 1
    FX.log.append(kind)


def fs_hook(path, data):
    if FX.n == FX.k:
        if FX.torn:
            FX.log.append("torn:" + path)
            return (data[:len(data) // 2] if isinstance(data, str) else "TORN"), True
        raise hx.Crash(path)
    FX.n += 1
    FX.log.append("write:" + path)
    return data, False


class RecRepo:
    def __init__(self, zdir, sess):
        self.zdir, self.sess = zdir, sess
        self.seen_pages = []

    def _view(self):
        v = dict(self.sess.durable)
        for n, b in self.sess.pending.items():
            if b is None:
                v.pop(n, None)
            else:
                v[n] = b
        return v

    def add_file(self, page, **k):
        if page not in self.seen_pages:
            self.seen_pages.append(page)
        rp._add_zids(self.zdir, page)                  # real: allocates ZIDs (next_ids.json writes), queues the event
        name = c.strip_zdir(self.zdir, page.path)
        if name in self._view():
            self.sess.dup.append(name)                 # a page added twice without removal = duplicated notes
        self.sess.pending[name] = [n.body for n in page.notes]

    def remove_file_by_name(self, name):
        view = self._view()
        if name in view:
            self.sess.pending[name] = None
            old = Page(Path(name))                     # the page as the index holds it (what the real repo hands back)
            old.h0 = H1("", [Block(notes=[_note(b, Path(name), 3) for b in view[name]])])
            return old
        return None


class RecSession:
    """transactional stand-in for SQLSession: one unit of work per `with`, durable at commit"""
    collect_new_messages = SQLSession.collect_new_messages
    add_message = SQLSession.add_message
    add_last_message = SQLSession.add_last_message

    def __init__(self, zdir, durable):
        self.zdir, self.durable = zdir, durable
        self._messages, self._last_messages = [], []
        self.pending, self.dup = {}, []
        self._repo = RecRepo(zdir, self)

    @property
    def repo(self):
        return self._repo

    def __enter__(self):
        self.pending = {}
        self._repo = RecRepo(self.zdir, self)
        return self

    def __exit__(self, *a):
        self.rollback()

    def commit(self):
        effect("commit")
        for n, b in self.pending.items():
            if b is None:
                self.durable.pop(n, None)
            else:
                self.durable[n] = b
        self.pending = {}

    def rollback(self):
        self.pending = {}


def setup(fstates, istates, hstates):
    fs = hx.FakeFS()
    index, hashmap = {}, {}
    for j, (name, f, i, h) in enumerate(zip(NAMES, fstates, istates, hstates)):
        if FILE_STATES[f]:
            fs.files["/z/" + name] = TEXTS[j][FILE_STATES[f]]
        if INDEX_STATES[i]:
            index[name] = bodies(TEXTS[j][INDEX_STATES[i]])
        if HASH_STATES[h]:
            hashmap[name] = "H(" + TEXTS[j][HASH_STATES[h]] + ")"
    fs.files["/z/.zorg/file_hash.json"] = hx._JsonBlob(dict(hashmap))
    fs.files["/z/.zorg/next_ids.json"] = hx._JsonBlob({})
    return fs, index


PIN_S0 = os.environ.get("XH_S0", "")


def _s0_ok(s0):
    if not PIN_S0:
        return True
    lo, hi = PIN_S0.split("-")
    return int(lo) <= s0 < int(hi)


def conc(*xs):
    """realise symbolic ints / bools WHILE TRACING (an equality test per candidate value), so that every choice - pre-state,
    command, crash boundary - is a decision in CrossHair's path tree and the space is exhausted exactly once; the real code
    then runs concretely for that choice (a traced path costs ~0.5 s here, an untraced one ~3 ms)"""
    out = []
    for x in xs:
        if isinstance(x, bool) or type(x).__name__.endswith("Bool"):
            out.append(True if x else False)
            continue
        for v in range(64):
            if x == v:
                out.append(v)
                break
        else:
            raise AssertionError("out of range")
    return out


def run(fs, durable, cmd_kind, paths, k, torn):
    """one process: returns None, or the exception the command died of (a Crash propagates)"""
    zdir = hx.FakePath("/z", fs)
    FX.n, FX.k, FX.torn, FX.log = 0, k, torn, []
    hx.FS_HOOK[0] = fs_hook
    sess = RecSession(zdir, durable)
    if cmd_kind == 0:
        cmd = commands.ReindexDBCommand(zdir, paths=[zdir / p for p in paths])
    else:
        durable.clear()                      # `db create` starts by deleting the database file
        cmd = commands.CreateDBCommand(zdir, update_error_file_whitelist=False)
    try:
        mb._handle([cmd], sess)
    finally:
        hx.FS_HOOK[0] = None
    return sess


def judge(fs, durable, originals, cmd_kind, paths, uninterrupted=None):
    """the end state the statement demands after the re-run"""
    files = {n: fs.files["/z/" + n] for n in NAMES if ("/z/" + n) in fs.files}
    if uninterrupted is not None:
        # "exactly as after an uninterrupted run": the pages in scope read as they do after an uninterrupted run from the same
        # state, up to the values of the ZIDs handed out today (same stamps, same modify dates, same text)
        for n in (sorted(set(files) | set(uninterrupted)) if (cmd_kind == 1 or not paths) else list(paths)):
            a, b = files.get(n), uninterrupted.get(n)
            if (a is None) != (b is None) or (a is not None and mask_new_zids(a) != mask_new_zids(b)):
                return "page %s differs from what an uninterrupted run leaves: %r vs %r" % (n, a, b)
    hashmap = fs.files["/z/.zorg/file_hash.json"]
    if not isinstance(hashmap, hx._JsonBlob):
        return "the hash map is not valid JSON after the re-run"
    hashmap = hashmap.obj
    scope = list(files) if (cmd_kind == 1 or not paths) else list(paths)
    for n in scope:
        if durable.get(n) != bodies(files[n]):
            return "index and file disagree for %s: index %r, file %r" % (n, durable.get(n), bodies(files[n]))
        if any(zid_of(b) is None for b in bodies(files[n])):
            return "a note of %s still has no ZID" % n
        if hashmap.get(n) != "H(" + files[n] + ")":
            return "hash entry of %s does not describe the file" % n
    if cmd_kind == 1 or not paths:
        if set(durable) != set(files):
            return "indexed pages %r, files %r" % (sorted(durable), sorted(files))
    zids = [zid_of(b) for bs in durable.values() for b in bs if zid_of(b)]
    if len(zids) != len(set(zids)):
        return "a ZID is assigned to two notes: %r" % (zids,)
    for n, t in originals.items():
        if n in files and strip_zids(files[n]) != strip_zids(t):
            return "user text of %s changed: %r -> %r" % (n, t, files[n])
        if n not in files:
            return "page %s vanished" % n
    return ""


def _admissible():
    """every (pre-state pair, command, crash boundary[, torn]) worth a run, computed concretely at import (harness processes
    only): boundary k ranges over 0..n where n = number of effects of the uninterrupted run (k = n: not killed at all);
    the torn variant exists for the boundaries whose effect is a file write"""
    atomic, torn = [], []
    if not hx.PATCH:
        return atomic, torn
    for a in range(len(VALID)):
        for b in range(len(VALID)):
            for mode in range(4):
                (f0, i0, h0), (f1, i1, h1) = VALID[a], VALID[b]
                if (mode == 1 and f0 == 0) or (mode == 2 and f1 == 0):
                    continue
                fs, durable = setup((f0, f1), (i0, i1), (h0, h1))
                run(fs, durable, 1 if mode == 3 else 0, [[], [NAMES[0]], [NAMES[1]], []][mode], -1, False)
                log = list(FX.log)
                assert len(log) < MAXK, log
                for k in range(len(log) + 1):
                    atomic.append((a, b, mode, k, False))
                    if k < len(log) and log[k].startswith("write:"):
                        torn.append((a, b, mode, k, True))
    return atomic, torn


PIN_N = os.environ.get("XH_N", "")


def _n_ok(n):
    if not PIN_N:
        return True
    lo, hi = PIN_N.split("-")
    return int(lo) <= n < int(hi)


def conc_bits(x, nbits):
    """realise a symbolic int WHILE TRACING by binary search (nbits decisions instead of up to 2^nbits)"""
    v = 0
    for b in reversed(range(nbits)):
        if x >= v + (1 << b):
            v += 1 << b
    return v


def converge(n: int) -> bool:
    """
    pre: 0 <= n < len(ADM) and _n_ok(n)
    post: _
    """
    # ADM[n] = (s0, s1, mode, k, torn).  mode 0: plain `db reindex`; 1 / 2: `db reindex a.zo` / `db reindex s/b.zo`;
    # 3: `db create`.  The run is killed at effect boundary k (torn: in the middle of effect k, a file write); the same
    # command then runs again and must complete and leave index and files in agreement, as an uninterrupted run would.
    # The solver chooses n; the real code then runs concretely for that choice (a traced run costs ~0.5 s per path here).
    n = conc_bits(n, len(ADM).bit_length())
    with NoTracing():
        s0, s1, mode, k, torn = ADM[n]
        return V(_converge(s0, s1, mode, k, torn) == "")


def _converge(s0, s1, mode, k, torn):
    """'' or what is wrong after: run killed at (k, torn); same command again"""
    (f0, i0, h0), (f1, i1, h1) = VALID[s0], VALID[s1]
    fs, durable = setup((f0, f1), (i0, i1), (h0, h1))
    if (mode == 1 and f0 == 0) or (mode == 2 and f1 == 0):
        return ""
    cmd_kind = 1 if mode == 3 else 0
    paths = [[], [NAMES[0]], [NAMES[1]], []][mode]
    originals = {n: fs.files["/z/" + n] for n in NAMES if ("/z/" + n) in fs.files}
    crashed = False
    try:
        run(fs, durable, cmd_kind, paths, k, torn)
    except hx.Crash:
        crashed = True
    if "KF-C13-1" in KNOWN and crashed and kf_lost_writeback(fs, durable):
        return ""
    if "KF-C13-2" in KNOWN and crashed and torn:
        return ""
    try:
        sess = run(fs, durable, cmd_kind, paths, -1, False)
    except Exception as e:  # noqa
        return "the re-run fails: %s: %s" % (type(e).__name__, e)        # "completes without error"
    if sess.dup:
        return "page %r added twice without removal" % (sess.dup,)
    fs_u, durable_u = setup((f0, f1), (i0, i1), (h0, h1))
    run(fs_u, durable_u, cmd_kind, paths, -1, False)
    files_u = {n: fs_u.files["/z/" + n] for n in NAMES if ("/z/" + n) in fs_u.files}
    return judge(fs, durable, originals, cmd_kind, paths, files_u)


def kf_lost_writeback(fs, durable):
    """predicate of KF-C13-1: killed after the hash map recorded a page whose ZID write-back had not happened yet - the
    index holds the page's notes WITH their new ZIDs, the file still lacks them, and the hash entry describes that file"""
    hashmap = fs.files["/z/.zorg/file_hash.json"]
    if not isinstance(hashmap, hx._JsonBlob):
        return False
    for n in NAMES:
        t = fs.files.get("/z/" + n)
        if t is not None and hashmap.obj.get(n) == "H(" + t + ")" and n in durable and durable[n] != bodies(t):
            return True
    return False


def kf_1(n: int) -> bool:
    """
    pre: 0 <= n < len(ADM) and _n_ok(n)
    post: _
    """
    # complementary query of KF-C13-1: ONLY crash points satisfying the finding's predicate
    n = conc_bits(n, len(ADM).bit_length())
    with NoTracing():
        s0, s1, mode, k, torn = ADM[n]
        if torn or mode == 3:
            return True
        (f0, i0, h0), (f1, i1, h1) = VALID[s0], VALID[s1]
        fs, durable = setup((f0, f1), (i0, i1), (h0, h1))
        paths = [[], [NAMES[0]], [NAMES[1]]][mode]
        originals = {x: fs.files["/z/" + x] for x in NAMES if ("/z/" + x) in fs.files}
        try:
            run(fs, durable, 0, paths, k, False)
            return True
        except hx.Crash:
            pass
        if not kf_lost_writeback(fs, durable):
            return True
        try:
            run(fs, durable, 0, paths, -1, False)
        except Exception:  # noqa
            return V(False)
        return V(judge(fs, durable, originals, 0, paths) == "")


ADM_ATOMIC, ADM_TORN = _admissible()
ADM = ADM_ATOMIC + ADM_TORN          # quick tier: n < len(ADM_ATOMIC); thorough: all
