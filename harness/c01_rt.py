"""Runtime shared by the generated C01/C08/C12 harness modules: parse every skeleton concretely with the
real ZorgFileLexer/ZorgFileParser (outside tracing, at first use), walk it with the real
ParseTreeWalker + ZorgFileCompiler under symbolic hole texts, compare with the oracle.

Real code under symbolic execution: ZorgFileCompiler (all enter*/exit*, _add_note incl. the bullet
scan, _get_note_kwargs, _ZorgFileCompilerState), zorg.shared.dates (is_short_date_spec,
from_short_date_spec, is_zid), Page.notes / flatten_h1_notes, antlr4.ParseTreeWalker.
Stubs: strptime model (%Y%m%d, %Y-%m-%d), clock = 2024-05-10, module loggers silent.
"""
import os
from pathlib import Path

from crosshair.tracers import NoTracing

from vlib import hx, skel
from vlib.hx import V  # noqa: F401
from harness import c01_common as cm
from zorg.domain.models import Page
from zorg.grammar.zorg_file.ZorgFileLexer import ZorgFileLexer
from zorg.grammar.zorg_file.ZorgFileParser import ZorgFileParser
from zorg.service.compiler import _file_compiler as fc
from zorg.service.compiler._file_compiler import ErrorManager, ZorgFileCompiler

hx.stub_loggers()
hx.patch_clock(fc)
hx.FixedDate.TODAY = cm.TODAY
hx.install_strptime_model()
TIER = os.environ.get("XH_TIER", "quick")
SEED = int(os.environ.get("XH_SEED", "0"))
N = cm.MAXLEN[TIER]
SPECS = cm.all_specs(TIER, SEED)
_PARSED = {}


def parsed(i):
    if i not in _PARSED:
        with NoTracing():
            text, holes = skel.assemble(SPECS[i].parts())
            ps = skel.Parsed(text, holes, ZorgFileLexer, ZorgFileParser, "prog")
            if ps.parse_errors.errors or ps.lex_errors.errors:
                raise AssertionError("skeleton %s does not parse: %r" % (SPECS[i].name, ps.parse_errors.errors[:2]))
            _PARSED[i] = ps
    return _PARSED[i]


def compile_spec(i, values):
    ps = parsed(i)
    ps.set_texts(values)
    page = Page(Path("/z/p.zo"))
    try:
        ps.walk(ZorgFileCompiler(page, ErrorManager()))
    finally:
        ps.reset()
    return page


def check_c01(i, values):
    """C01: exactly the notes written in the page, field by field"""
    spec = SPECS[i]
    page = compile_spec(i, values)
    notes = page.notes
    items = spec.items()
    if page.has_errors or len(notes) != len(items):
        return False
    for n, (item, ln) in zip(notes, items):
        exp = cm.expect_note(item, ln, values)
        got = cm.note_view(n)
        for k in exp:
            if got[k] != exp[k]:
                return False
    return True
