"""C04 — Query text is compiled into the structure its syntax denotes.   (DESIGN.md §4)

Skeleton + holes on the query grammar: abstract queries (select forms, atoms of every kind, pooling, alternatives,
nesting, clause orders) are rendered, parsed with the real ZorgQueryLexer/ZorgQueryParser, and walked by the real
ZorgQueryCompiler under CrossHair with symbolic / solver-chosen token texts; the resulting Query is compared with the
abstract query.  Since the renderer is the shape generator, "render then compile gives an equal structure" is the
same assertion.  Kernels with symbolic strings: value-type inference, operator splitting, relative dates.
Replay: build_zorg_query on the substituted text with the clock frozen.
"""
import os as _os
_os.environ["XH_NO_PATCH"] = "1"   # this process replays on the real code: never patch zorg here

import os
import shutil
import sys

from vlib import gen, skel, xh
from vlib.driver import Report, handle_xh
from harness import c04_common as c4

HDIR = os.path.dirname(os.path.abspath(__file__))
RT = os.path.join(HDIR, "c04_rt.py")


def well_formed(spec):
    from zorg.grammar.zorg_query.ZorgQueryLexer import ZorgQueryLexer
    from zorg.grammar.zorg_query.ZorgQueryParser import ZorgQueryParser
    text, holes = skel.assemble(spec.parts())
    try:
        ps = skel.Parsed(text, holes, ZorgQueryLexer, ZorgQueryParser, "prog")
    except ValueError as e:
        return False, str(e)
    errs = ps.parse_errors.errors + ps.lex_errors.errors
    return not errs, (errs[0] if errs else "")


def generate(tier, seed):
    specs = c4.all_specs(tier, seed)
    funcs, entries, dropped = [], [], []
    for i, s in enumerate(specs):
        ok, why = well_formed(s)
        if not ok:
            dropped.append((s.name, skel.assemble(s.parts())[0], why))
            continue
        args, pres, vals = [], [], []
        for h in s.holes():
            a_, p_, v_ = c4.wrapper_args(h)
            if any(a_[0][0] == x[0] for x in args):
                continue                      # the same hole used twice (select prop:k)
            args += a_
            pres += p_
            vals.append('"%s": %s' % (h.name, v_))
        if not args:
            args = [("dummy", "bool")]
        funcs.append(("q_%d" % i, args, pres, ["return V(check_c04(%d, {%s}))" % (i, ", ".join(vals))]))
        entries.append(("q_%d" % i, i))
    d = gen.gen_dir()
    path = gen.write_module(os.path.join(d, "c04_gen.py"),
                            "from harness.c04_rt import *  # noqa: F401,F403\nfrom harness.c04_rt import SPECS, c4, check_c04", funcs)
    return d, path, specs, entries, dropped


def values_from_call(spec, args):
    vals, k, seen = {}, 0, set()
    for h in spec.holes():
        if h.name in seen:
            continue
        seen.add(h.name)
        a_, _p, expr = c4.wrapper_args(h)
        env = {"c4": c4}
        for (an, _t) in a_:
            env[an] = args[k]
            k += 1
        vals[h.name] = eval(expr, env)
    return vals


def make_replayer(specs):
    def replayer(name, args, kwargs, meta):
        from freezegun import freeze_time
        from zorg.service.compiler import build_zorg_query
        if name.startswith("k_"):
            return replay_kernel(name, args)
        spec = specs[int(name.split("_")[1])]
        vals = values_from_call(spec, list(args)) if spec.holes() else {}
        text, holes = skel.assemble(spec.parts())
        out, pos = "", 0
        for off, h in holes:
            out += text[pos:off] + vals[h.name]
            pos = off + len(h.default)
        out += text[pos:]
        with freeze_time(c4.TODAY.strftime("%Y-%m-%d") + " 10:00:00"):
            try:
                q = build_zorg_query(out)
            except Exception as e:  # noqa
                return True, {"summary": "compiling the query %r raises %s: %s" % (out, type(e).__name__, e)}
        got, want = c4.view_query(q), c4.expect_query(spec, vals)
        diff = {k: (got[k], want[k]) for k in want if got[k] != want[k]}
        return bool(diff), {"summary": "query %r compiles to %r, its text spells %r" % (out, {k: v[0] for k, v in diff.items()},
                                                                                      {k: v[1] for k, v in diff.items()}), "query": out}
    return replayer


def c4rt_rel2():
    return ["0d", "-1d", "7d", "-1m", "1m", "-12m", "1y", "-4y", "0m", "0y"]


def replay_kernel(name, args):
    from freezegun import freeze_time
    from zorg.service.compiler import _query_compiler as qc
    from zorg.shared import dates as zdt
    if name == "k_value_type":
        v = args[0]
        want = "DATE" if c4.is_date_like(v) else ("INTEGER" if all(ch in "0123456789" for ch in v) else "STRING")
        got = qc._get_value_type(v).name
        return got != want, {"summary": "value %r is typed %s, expected %s" % (v, got, want)}
    if name == "k_split_op":
        ops, names = ["", "<", "<=", ">", ">="], ["EQ", "LT", "LE", "GT", "GE"]
        got = qc._split_op_value(ops[args[0]] + args[1])
        return (got[0].name, got[1]) != (names[args[0]], args[1]), {"summary": "%r splits into %r" % (ops[args[0]] + args[1], got)}
    if name == "k_relative":
        n, unit, neg = args
        spec = ("-" if neg else "") + str(n) + "dmy"[unit]
        with freeze_time(c4.TODAY.strftime("%Y-%m-%d") + " 10:00:00"):
            got = zdt.from_date_spec(spec)
        want = c4.date_of(spec)
        return got != want, {"summary": "date spec %r on %s denotes %s, compiled to %s" % (spec, c4.TODAY, want, got)}
    if name == "k_two_days":
        spec = c4rt_rel2()[args[0]]
        out = []
        for k in (args[1], args[2]):
            with freeze_time(c4.DAYS[k].strftime("%Y-%m-%d") + " 10:00:00"):
                out.append((c4.DAYS[k], zdt.from_date_spec(spec), c4.date_of(spec, c4.DAYS[k])))
        bad = [o for o in out if o[1] != o[2]]
        return bool(bad), {"summary": "date spec %r resolved twice in one process: %s" % (
            spec, "; ".join("on %s -> %s (denotes %s)" % o for o in out))}
    return False, {"summary": "no replayer for " + name}


def main():
    tier = sys.argv[1] if len(sys.argv) > 1 else "quick"
    seed = int(sys.argv[2]) if len(sys.argv) > 2 else 0
    rep = Report("C04", tier, seed)
    gdir, path, specs, entries, dropped = generate(tier, seed)
    try:
        rep.describe(
            explanation=(
                "Skeleton + holes on the query grammar: %d abstract queries (every select form incl. count(.) and prop:k; every "
                "atom kind with negation / operators / quote styles / glob shapes; all Pn and Pn-m spellings with the start digit "
                "symbolic; kind-character strings; absolute, relative and mixed date ranges; pooling inside a group, alternatives, "
                "nesting to depth 3; both clause orders; every ordering and grouping keyword) are parsed by the real lexer/parser "
                "and walked by the real ZorgQueryCompiler under CrossHair/z3; the compiled Query must equal the abstract query "
                "(sets of kinds / priorities / tags, date ranges with today = 2024-05-31, property filters with operator, value, "
                "negation and inferred type, text filters, globs with .zo completion, links, nested OR groups, defaults for omitted "
                "S / O / G). Kernels: value-type inference and operator splitting over symbolic strings; [-]N(d|m|y) for N <= 40." % len(entries)),
            functions=["zorg.service.compiler._query_compiler.ZorgQueryCompiler (all listener methods) and _add_priorities/_add_note_types/"
                       "_get_date_range/_get_property_filter/_split_op_value/_get_value_type/_get_desc_filter/_get_select_from_field",
                       "zorg.shared.dates.from_date_spec/from_short_date_spec/_from_long_date_spec/_from_relative_date_spec/is_*_spec",
                       "zorg.domain.models.Query defaults", "ZorgQueryLexer/ZorgQueryParser (concretely)"],
            stubs=["clock: date.today() = 2024-05-31 (dateutil's relativedelta and datetime arithmetic run for real)"],
            bounds=["identifiers / keys / texts / values from the menus %r %r %r %r %r %r; dates from %r and %r" % (
                c4.NAME_MENU, c4.KEY_MENU, c4.TEXT_MENU, c4.VSTR, c4.VINT, c4.VDATE, c4.ABS_DATES, c4.REL_SPECS),
                "Pn: any start digit; Pn-m: any start digit, m in 1..9; kind strings: %s" % (
                    "all of length <= 3 without adjacent letters" if tier != "quick" else "6 + a seeded sample of 18 of those"),
                "nesting depth <= 3; thorough adds 60 seeded random trees"],
            outside=["query texts the real parser rejects or recovers from (adjacent kind letters 'ox', keyword identifiers such as #c, "
                     "numeric property values that are single digits, short/relative dates as property values): not well-formed for "
                     "the shipped grammar", "_process_query (CLI normalisation)", "N > 40 in relative dates; identifiers outside the menus"])
        for nm, text, why in dropped:
            rep.note("dropped from the bound (not well-formed for the real parser): %s %r: %s" % (nm, text, why))
        T = 150 if tier == "quick" else 300
        env = {"XH_TIER": tier, "XH_SEED": seed}
        conds = [xh.Cond(path, fname, timeout=T, env=env,
                         meta={"variant": specs[i].name, "family": specs[i].name.split("-")[0],
                               "bound": skel.assemble(specs[i].parts())[0]}) for fname, i in entries]
        for k in ("k_value_type", "k_split_op", "k_relative"):
            conds.append(xh.Cond(RT, k, timeout=T * 2, env=env, meta={"family": "kernel"}))
        conds.append(xh.Cond(RT, "k_two_days", timeout=T * 2, env=env, meta={"family": "kernel"},
                             cc={"ranges": [[0, len(c4rt_rel2())], [0, len(c4.DAYS)], [0, len(c4.DAYS)]], "max": 400}))
        conds.append(xh.Cond(path, entries[0][0], timeout=30, twin=True, env=env, meta={"variant": specs[entries[0][1]].name, "family": "twin"}))
        conds.append(xh.Cond(RT, "k_relative", timeout=30, twin=True, env=env, meta={"family": "twin"}))
        results = xh.run_all(conds)
        handle_xh(rep, results, make_replayer(specs))
        for s in (specs[18], specs[-20]):
            rep.sample({"query": skel.assemble(s.parts())[0], "holes": [repr(h) for h in s.holes()]})
    finally:
        shutil.rmtree(gdir, ignore_errors=True)
    sys.exit(rep.finish())


if __name__ == "__main__":
    main()
