"""C01/C02/C08/C12: abstract pages, their rendering into skeletons with holes, hole classes (Python
predicate + z3 regex), and the oracle written from the property statements (DESIGN.md Appendix B).
No zorg module is patched here."""
import datetime as dt
import random

from vlib.skel import Hole

TODAY = dt.date(2024, 5, 10)
ALNUM = "0123456789ABCDEFGHIJKLMNOPQRSTUVWXYZabcdefghijklmnopqrstuvwxyz"
DIG = "0123456789"
ZIDCH = "0123456789ABCDEFGHJKLMNPQRSTUVWXYZabcdefghikmnopqrstuvwxyz"   # lexer ZID_CHAR (checked against the ATN)
KINDS = ["-", "o", "x", "~", "<", ">"]
KIND_NAME = {"-": None, "o": "OPEN_TODO", "x": "CLOSED_TODO", "~": "CANCELED_TODO", "<": "BLOCKED_TODO", ">": "PARENT_TODO"}
MAXLEN = {"quick": 3, "thorough": 4}


# ------------------------------------------------------------------ hole classes: Python predicates
def is_time(s):
    return len(s) == 4 and s[0] in "012" and s[1] in DIG and s[2] in "012345" and s[3] in DIG


def P_id(s, n):
    """a word that the file lexer turns into exactly one ID token (class(ID) of the real ATN, proved in c01.py)"""
    return (1 <= len(s) <= n and s[0] in ALNUM and all((ch in ALNUM or ch == "_") for ch in s[1:])
            and s != "o" and s != "x" and s != "http" and s != "https"
            and not (len(s) == 2 and s[0] == "P" and s[1] in DIG) and not is_time(s))


ID_MENU = ("a", "b1", "Zz9", "X", "o2", "x_")


def P_idm(s):
    """menu-valued ID-class hole, for positions whose text reaches str.strip()/split()/hash() (CrossHair realises there)"""
    return s in ID_MENU


def P_pri(s):
    return len(s) == 2 and s[0] == "P" and s[1] in DIG


def P_d6(s):
    return len(s) == 6 and all(ch in DIG for ch in s)


def P_zid(s):
    return (9 <= len(s) <= 10 and s[0] in DIG and s[1] in DIG and s[2] in "01" and s[3] in DIG and s[4] in "0123"
            and s[5] in DIG and s[6] == "#" and all(ch in ZIDCH for ch in s[7:]))


def P_ldate(s):
    return (len(s) == 10 and s[0] == "2" and s[1] in DIG and s[2] in DIG and s[3] in DIG and s[4] == "-" and s[5] in "01"
            and s[6] in DIG and s[7] == "-" and s[8] in "0123" and s[9] in DIG)


PRI_MENU = tuple("P%d" % i for i in range(10))
# representative date parts yymmdd: every class the calendar distinguishes (all have the lexer's ZID/DATE shape)
DATE_MENU = ("240510", "240100", "240001", "241301", "241231", "240431", "240229", "230229", "240230", "240132", "241939",
             # two-digit years on both sides of strptime's %y pivot (69 -> 1969) and at the ends of the century: always 20YY
             "000229", "680229", "690101", "991231")
TOKEN_OF = {"id": "ID", "idm": "ID", "pric": "PRIORITY", "prim": "PRIORITY", "d6_m": "ID", "d6_d": "ID", "zid_m": "ZID",
            "zid_d": "ZID", "ldate_m": "DATE", "ldate_d": "DATE", "d6_i": "ID", "zid_i": "ZID", "ldate_i": "DATE"}


def pick(members, i):
    """members[i] with the index realised by equality tests (list indexing keeps ints symbolic)"""
    for k in range(len(members)):
        if i == k:
            return members[k]
    raise AssertionError("index out of range")


def long_of(s6):
    return "20" + s6[0:2] + "-" + s6[2:4] + "-" + s6[4:6]


def wrapper_args(h, n):
    """how a hole appears in the generated CrossHair function: ([(arg, type)], [pre], value expression)"""
    k, a = h.kind, h.name
    if k == "id":
        return [(a, "str")], ["cm.P_id(%s, %d)" % (a, n)], a
    if k == "idm":
        return [(a, "int")], ["0 <= %s < len(cm.ID_MENU)" % a], "cm.ID_MENU[%s]" % a
    if k == "pric":
        return [(a, "str")], ["len(%s) == 1 and %s in cm.DIG" % (a, a)], '"P" + %s' % a
    if k == "prim":
        return [(a, "int")], ["0 <= %s <= 9" % a], "cm.PRI_MENU[%s]" % a
    base, var = k.rsplit("_", 1)
    if var == "i":      # date part from DATE_MENU (an index: realised at once, cheap paths)
        pre = ["0 <= %s < len(cm.DATE_MENU)" % a]
        if base == "d6":
            return [(a, "int")], pre, "cm.DATE_MENU[%s]" % a
        if base == "zid":
            return [(a, "int"), (a + "three", "bool")], pre, 'cm.DATE_MENU[%s] + ("#0Rx" if %sthree else "#0R")' % (a, a)
        if base == "ldate":
            return [(a, "int")], pre, 'cm.long_of(cm.DATE_MENU[%s])' % a
    if var == "m":      # month digits symbolic, day 10, year 24
        digs = [(a + "m1", "str"), (a + "m2", "str")]
        mm, dd, yy = "%sm1 + %sm2" % (a, a), '"10"', '"24"'
        shape = "%sm1 in %s and %sm2 in cm.DIG" % (a, "cm.DIG" if base == "d6" else '"01"', a)
    else:               # day digits symbolic in February of 2023 / 2024 (leap year)
        digs = [(a + "d1", "str"), (a + "d2", "str"), (a + "y", "str")]
        mm, dd, yy = '"02"', "%sd1 + %sd2" % (a, a), '"2" + %sy' % a
        shape = "%sd1 in %s and %sd2 in cm.DIG and %sy in \"34\"" % (a, "cm.DIG" if base == "d6" else '"0123"', a, a)
    one = " and ".join("len(%s) == 1" % x for x, _ in digs)
    if base == "d6":     # any six digits lex as ID
        return digs, [one, shape], "%s + %s + %s" % (yy, mm, dd)
    if base == "zid":    # the lexer's ZID shape; suffix of two or three characters
        return digs + [(a + "three", "bool")], [one, shape], \
            '%s + %s + %s + ("#0Rx" if %sthree else "#0R")' % (yy, mm, dd, a)
    if base == "ldate":
        return digs, [one, shape], '"20" + %s + "-" + %s + "-" + %s' % (yy, mm, dd)
    raise ValueError(k)


# ------------------------------------------------------------------ calendar (oracle side, symbolic friendly)
def _num(s):
    n = 0
    for ch in s:
        n = n * 10 + (ord(ch) - 48)
    return n


def valid_ymd(y, m, d):
    if not (1 <= m <= 12) or d < 1:
        return False
    if m in (1, 3, 5, 7, 8, 10, 12):
        return d <= 31
    if m in (4, 6, 9, 11):
        return d <= 30
    leap = (y % 4 == 0 and y % 100 != 0) or y % 400 == 0
    return d <= (29 if leap else 28)


def short_ymd(s6):
    return 2000 + _num(s6[0:2]), _num(s6[2:4]), _num(s6[4:6])


def long_ymd(s10):
    return _num(s10[0:4]), _num(s10[5:7]), _num(s10[8:10])


# ------------------------------------------------------------------ abstract pages
class Item:
    """kind: one of KINDS; pri: None | str | Hole(kind 'pri'); layout: how the first words look
       words: first-line parts AFTER the layout words (str | Hole); cont: list of continuation lines (str, verbatim)"""

    def __init__(self, kind, pri=None, layout="plain", lay=None, words=(), cont=()):
        self.kind, self.pri, self.layout, self.lay = kind, pri, layout, (lay or {})
        self.words, self.cont = list(words), list(cont)

    def first_line_parts(self):
        parts = [self.kind]
        if self.pri is not None:
            parts += [" ", self.pri]
        lw = []
        if self.layout == "zid":
            lw = [self.lay["zid"]]
        elif self.layout == "d6zid":
            lw = [self.lay["d6"], self.lay["zid"]]
        elif self.layout == "ldate":
            lw = [self.lay["ldate"]]
        elif self.layout == "d6only":
            lw = [self.lay["d6"]]
        for w in lw + self.words:
            parts += [" ", w]
        return parts


class PageSpec:
    """lines: list of ("title"|"comment"|"blank"|"h1".."h4"|"item", payload)"""

    def __init__(self, name, lines, note=""):
        self.name, self.lines, self.note = name, lines, note

    def parts(self):
        out = []
        for kind, payload in self.lines:
            if kind in ("title", "comment"):
                out += ["#"] + ([" ", payload] if payload else []) + ["\n"]
            elif kind == "blank":
                out += ["\n"]
            elif kind in ("h1", "h2", "h3", "h4"):
                bar = {"h1": "#" * 32, "h2": "=" * 24, "h3": "+" * 16, "h4": "-" * 8}[kind]
                out += [bar, " "] + (payload if isinstance(payload, list) else [payload]) + ["\n"]
            elif kind == "item":
                out += payload.first_line_parts() + ["\n"]
                for c in payload.cont:
                    out += [c, "\n"]
        return out

    def items(self):
        """(item, 1-based line number of its first line)"""
        out, ln = [], 1
        for kind, payload in self.lines:
            if kind == "item":
                out.append((payload, ln))
                ln += 1 + len(payload.cont)
            else:
                ln += 1
        return out

    def holes(self):
        return [p for p in self.parts() if isinstance(p, Hole)]


def val(p, values):
    return values[p.name] if isinstance(p, Hole) else p


# ------------------------------------------------------------------ oracle (C01)
def expect_note(item, line_no, values, scope_date=None):
    """the note the statement says this item denotes, as a dict; 'crash_ok' is never part of it"""
    kind = item.kind
    exp = {"kind": KIND_NAME[kind], "line_no": line_no}
    if kind == "-":
        exp["priority"] = None
    else:
        exp["priority"] = val(item.pri, values).upper() if item.pri is not None else "P3"
    # body: everything after the prefix (and the priority), all lines, outer-stripped
    first = "".join(val(p, values) for p in item.first_line_parts())
    skip = 1 + (1 + len(val(item.pri, values)) if item.pri is not None else 0)
    body = first[skip:]
    for c in item.cont:
        body += "\n" + c
    exp["body"] = body.strip()
    zid, create, modify = None, None, None
    if item.layout in ("zid", "d6zid"):
        z = val(item.lay["zid"], values)
        zid = z
        y, m, d = short_ymd(z[0:6])
        if valid_ymd(y, m, d):           # an impossible date part says nothing about the creation date
            create = (y, m, d)
    if item.layout in ("d6zid", "d6only"):
        s6 = val(item.lay["d6"], values)
        y, m, d = short_ymd(s6)
        if valid_ymd(y, m, d):
            modify = (y, m, d)
        elif item.layout == "d6zid":
            # a six-digit first word that is no calendar date is an ordinary word: the ZID behind it is then
            # the SECOND id after an ordinary word, i.e. not the note's ZID (Appendix B)
            zid, create = None, None
    if item.layout == "ldate":
        y, m, d = long_ymd(val(item.lay["ldate"], values))
        if valid_ymd(y, m, d):
            create = (y, m, d)
    if create is None:
        d0 = scope_date or TODAY
        create = (d0.year, d0.month, d0.day)
    if modify is None:
        modify = create
    exp["zid"], exp["create"], exp["modify"] = zid, create, modify
    return exp


def note_view(n):
    return {"kind": (n.todo_payload.status.name if n.todo_payload else None),
            "priority": (n.todo_payload.priority if n.todo_payload else None),
            "body": n.body, "line_no": n.line_no, "zid": n.zid,
            "create": (n.create_date.year, n.create_date.month, n.create_date.day),
            "modify": (n.modify_date.year, n.modify_date.month, n.modify_date.day)}


def dates_valid(spec, values):
    """all dates the page WRITES as ZID / long date are calendar dates (else the statement gives no value)"""
    for item, _ln in spec.items():
        if item.layout in ("zid", "d6zid"):
            if not valid_ymd(*short_ymd(val(item.lay["zid"], values)[0:6])):
                return False
        if item.layout == "ldate":
            if not valid_ymd(*long_ymd(val(item.lay["ldate"], values))):
                return False
    return True


# ------------------------------------------------------------------ skeleton sets
def core_set(tier):
    """6 kinds x {no priority, priority (todos)} x 5 first-word layouts x {one line, continuation}: 110 pages,
    each with a body-word hole and (if present) the priority hole"""
    out = []
    n = MAXLEN[tier]
    for kind in KINDS:
        for with_pri in ((False,) if kind == "-" else (False, True)):
            for layout in ("plain", "zid", "d6zid", "ldate", "d6only"):
                for cont in (False, True):
                    lay = {"zid": "240510#0R", "d6": "240612", "ldate": "2024-03-09"}
                    # the body-word hole lives in the variants without priority (every kind and layout has one);
                    # the variants with a priority have the priority token as their hole
                    word = "bw" if with_pri else Hole("w", "bw", "idm" if cont else "id")
                    it = Item(kind, pri=Hole("p", "P1", "prim" if cont else "pric") if with_pri else None, layout=layout, lay=lay,
                              words=["alpha", word, "omega."],
                              cont=["  * bullet one  ", "  plain continuation"] if cont else [])   # (inner trailing blanks are body text)
                    name = "core-%s-%s-%s-%s" % ({"-": "note"}.get(kind, "todo" + kind), "pri" if with_pri else "nopri", layout,
                                                 "multi" if cont else "single")
                    out.append(PageSpec(name, [("title", "title"), ("blank", None), ("item", it)]))
    return out


def layout_set(tier):
    """the layout tokens themselves as holes (ZID, six-digit word, long date), body concrete; each in a
    month-digits-symbolic and a day-digits-symbolic (February 2023/2024) variant"""
    out = []
    for kind, pri in (("-", None), ("o", "P2"), ("x", None)):
        for var in (("i",) if (tier == "quick" or kind != "-") else ("i", "m", "d")):
            for layout, holes in (("zid", {"zid": Hole("z", "240510#0R", "zid_" + var)}),
                                  ("d6zid", {"d6": Hole("d", "240612", "d6_" + var), "zid": "240510#0R"}),
                                  ("d6zid", {"d6": "240612", "zid": Hole("z", "240510#0R", "zid_" + var)}),
                                  ("d6only", {"d6": Hole("d", "240612", "d6_" + var)}),
                                  ("ldate", {"ldate": Hole("l", "2024-03-09", "ldate_" + var)})):
                it = Item(kind, pri=pri, layout=layout, lay=holes, words=["body", "text"])
                hn = [k for k, v in holes.items() if isinstance(v, Hole)][0]
                out.append(PageSpec("layout-%s-%s-%s-%s" % ({"-": "note"}.get(kind, "todo" + kind), layout, hn, var),
                                    [("title", "title"), ("blank", None), ("item", it)]))
    return out


VOCAB = ["o", "x", "~", "<", ">", "-", "P5", "1230", "2024-01-01", "240510#0R", "240511", "https://a.b", "#t", "@t", "%t", "+t",
         "[[l]]", "[#g]", "[^l]", "[@r]", "[240510#0R]", "((e))", "k::v", "[k:: v w]", "'q'", '"q"', "(paren)", "end."]


def multi_set(tier, seed):
    """multi-item / multi-block / sectioned pages whose BODY words come from the type-changing vocabulary
    (words that merely look like prefixes, priorities, dates, ZIDs, links ...): they must not change the note's
    kind, priority or identity.  Seeded sample; one body-word hole per page."""
    rnd = random.Random(1000 + seed)
    out = []
    count = 24 if tier == "quick" else 120
    for i in range(count):
        lines = [("title", "title"), ("blank", None)]
        nitems = rnd.randint(2, 4)
        sect = rnd.random() < 0.5
        for j in range(nitems):
            kind = rnd.choice(KINDS)
            pri = ("P%d" % rnd.randint(0, 9)) if (kind != "-" and rnd.random() < 0.5) else None
            layout = rnd.choice(["plain", "plain", "zid", "d6zid", "ldate"])
            lay = {"zid": "2405%02d#0%s" % (10 + j, "RSTU"[j]), "d6": "240612", "ldate": "2024-03-09"}
            words = ["w%d" % j] + [rnd.choice(VOCAB) for _ in range(rnd.randint(1, 3))]
            if j == 0:
                words.insert(1, Hole("w", "bw", "idm"))
            cont = []
            if rnd.random() < 0.4:
                cont = ["  * " + rnd.choice(VOCAB) + " tail", "    - " + rnd.choice(VOCAB)]
            if sect and j == 1:
                lines.append(("blank", None))
                lines.append((rnd.choice(["h1", "h2"]), "Section"))
            elif j > 0 and rnd.random() < 0.3:
                lines.append(("blank", None))
            elif j > 0 and rnd.random() < 0.2:
                lines.append(("comment", "in-block comment o P1 240510#0Z"))
            lines.append(("item", Item(kind, pri=pri, layout=layout, lay=lay, words=words, cont=cont)))
        out.append(PageSpec("multi-%d-%d" % (seed, i), lines))
    return out


FIRSTW_MENU = ("alpha", "P5", "o", "x", "1230", "240612x")


def firstword_set(tier):
    """first BODY word (after kind, priority, ZID) from a vocabulary of words that look like prefixes.  These words have
    token types of their own (PRIORITY, LOWER_O, LOWER_X, TIME, ID), so each is a skeleton of its own - no hole; the
    generator groups them into one condition per (kind, priority, layout) with the word index as the only argument"""
    out = []
    for kind in KINDS:
        for with_pri in ((False,) if kind == "-" else (False, True)):
            for layout in ("plain", "zid"):
                for wi, w in enumerate(FIRSTW_MENU):
                    if layout == "plain" and not with_pri and kind != "-" and w == "P5":
                        continue        # 'o P5 rest' IS a priority, not a body word
                    it = Item(kind, pri="P1" if with_pri else None, layout=layout, lay={"zid": "240510#0R"}, words=[w, "rest"])
                    out.append(PageSpec("first-%s-%s-%s-%d" % ({"-": "note"}.get(kind, "todo" + kind), "pri" if with_pri else "nopri",
                                                               layout, wi),
                                        [("title", "title"), ("blank", None), ("item", it)]))
    return out


def secondword_set(tier):
    """SECOND body word from the type-changing vocabulary (a long date, a ZID, a time, a priority ... right after an
    ordinary first word must not change the note's identity, dates, kind or priority); hole-less, grouped like firstword_set"""
    out = []
    for kind, pri in (("-", None), ("o", None), ("x", "P2")):
        for layout in ("plain", "zid", "d6zid"):
            for wi, w in enumerate(VOCAB):
                it = Item(kind, pri=pri, layout=layout, lay={"zid": "240510#0S", "d6": "240612"}, words=["first", w, "rest"])
                out.append(PageSpec("second-%s-%s-%d" % ({"-": "note"}.get(kind, "todo" + kind), layout, wi),
                                    [("title", "title"), ("blank", None), ("item", it)]))
    return out


def legal_header_sequences(maxlen):
    """every legal sequence of section levels: H1 anywhere; H2 anywhere (before the first H1 it hangs off the page
    head); H3 only inside an open H2; H4 only inside an open H3"""
    out = [[]]
    frontier = [[]]
    for _ in range(maxlen):
        nxt = []
        for seq in frontier:
            for lvl in (1, 2, 3, 4):
                if lvl >= 3:
                    prev = [x for x in seq if x < lvl]
                    if not prev or prev[-1] != lvl - 1:
                        continue
                    # the enclosing level-(lvl-1) header must still be open: no header of a lower level after it
                    k = max(i for i, x in enumerate(seq) if x == lvl - 1)
                    if any(x < lvl - 1 for x in seq[k + 1:]):
                        continue
                nxt.append(seq + [lvl])
        out += nxt
        frontier = nxt
    return out


def section_set(tier):
    """every legal header sequence up to the bound, with and without a block in front of the first header;
    one item directly under every header; the first item carries a menu-valued body-word hole"""
    out = []
    maxlen = 3 if tier == "quick" else 4
    for seq in legal_header_sequences(maxlen):
        for lead in (True, False):
            if not seq and not lead:
                continue
            lines = [("title", "title"), ("blank", None)]
            n = 0
            first = True

            def item():
                nonlocal n, first
                kind = KINDS[n % len(KINDS)]
                words = ["n%d" % n] + ([Hole("w", "bw", "idm")] if first else []) + ["text"]
                it = Item(kind, pri=("P%d" % (n % 10)) if kind != "-" and n % 2 else None, layout="zid",
                          lay={"zid": "2405%02d#0%s" % (10 + n, "RSTUVWXYZ"[n % 9])}, words=words)
                n += 1
                first = False
                return ("item", it)
            if lead:
                lines.append(item())
            for lvl in seq:
                if len(lines) > 2:
                    lines.append(("blank", None))
                lines.append(("h%d" % lvl, "S%d" % lvl))
                lines.append(item())
            out.append(PageSpec("sect-%s-%s" % ("".join(map(str, seq)) or "none", "lead" if lead else "nolead"), lines))
    return out


def all_specs(tier, seed):
    return core_set(tier) + layout_set(tier) + multi_set(tier, seed) + section_set(tier) + firstword_set(tier) + secondword_set(tier)
