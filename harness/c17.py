"""C17 — `action open` offers and opens exactly the link targets on the line.   (DESIGN.md §6)

CrossHair conditions (harness/c17_h.py): the real run_action_open and every _open_* function over
lines built from a prefix menu and 1-3 words from a word menu (links of every kind, ZIDs bare and
bracketed, look-alikes, punctuation), in .zo and .zoq pages, for every option index and two index
contents; compared with an oracle written from the statement, plus the relational clause
"option k == a line holding only the k-th target".
Replay: the real runner on a real directory with a real index (`db create`), stdout captured.
"""
import os as _os
_os.environ["XH_NO_PATCH"] = "1"   # this process replays on the real code: never patch zorg here

import contextlib
import importlib
import importlib.util
import io
import os
import sys

from vlib import xh, zreal
from vlib.driver import Report, handle_xh

HDIR = os.path.dirname(os.path.abspath(__file__))
H = os.path.join(HDIR, "c17_h.py")


def _load():
    spec = importlib.util.spec_from_file_location("c17_h_tbl", H)
    m = importlib.util.module_from_spec(spec)
    spec.loader.exec_module(m)
    return m


def _real_run(m, z, line, zoq, option, idx):
    """real runner, real files, real SQLite index built by `db create` from pages that realise `idx`"""
    from types import SimpleNamespace
    from pathlib import Path
    for mod in ("zorg.shared.common", "zorg.service.note_utils", "zorg.app.runners._run_action"):
        importlib.reload(importlib.import_module(mod))
    ra = importlib.import_module("zorg.app.runners._run_action")
    calls = []
    ra.init_from_template = lambda *a, **k: calls.append(("init", str(a[2])))

    class _SP:
        @staticmethod
        def run(cmd, check=False):
            calls.append(("run", tuple(cmd)))
            return SimpleNamespace(returncode=0)
    ra.sp = _SP
    ra._refresh_zoq_file = lambda cfg, p: calls.append(("refresh", str(p)))
    name = "cur.zoq" if zoq else "cur.zo"
    (z / name).write_text("# t\n\n" + line + "\n- 240909#09 other line\n")
    cfg = SimpleNamespace(zettel_dir=z, zo_path=Path(name), line_number=3, option_idx=option,
                          binary_exts=["epub", "jpeg", "pdf", "png", "xmind"], template_pattern_map={},
                          database_url=zreal.db_url(z), verbose=0)
    buf = io.StringIO()
    with contextlib.redirect_stdout(buf):
        rc = ra.run_action_open(cfg)
    out = [ln for ln in buf.getvalue().split("\n") if ln and not ln.startswith("\x1b") and "[" + "2m" not in ln]
    out = [ln for ln in out if ln.split(" ")[0] in ("EDIT", "SEARCH", "PROMPT", "ECHO") or not ln.startswith(" ")]
    return out, rc, calls


def _make_dir(m, z, idx):
    """pages whose notes carry the ZIDs / ID / RID properties of the index content"""
    pages = {}
    for zid, page in idx["zids"].items():
        pages.setdefault(page, []).append("- %s note" % zid)
    n = 0
    for key, field in (("ids", "ID"), ("rids", "RID")):
        for ident, plist in idx[key].items():
            for page in plist:
                n += 1
                pages.setdefault(page, []).append("- 2411%02d#0%d carrier %s::%s" % (n, n, field, ident))
    pages.setdefault("p.zo", []).append("- 241201#00 page p")
    for page, lines in pages.items():
        (z / page).parent.mkdir(parents=True, exist_ok=True)
        (z / page).write_text("# " + page + "\n\n" + "\n".join(lines) + "\n")
    (z / "doc.pdf").write_text("%PDF")
    zreal.create_db(z)


def replayer(name, args, kwargs, meta):
    m = _load()
    if name == "action_n":
        args = m.ADM[args[0]]
    pre_i, w1, p1, w2, w3, zoq, opt, idx_i = args
    line = m.build_line(pre_i, w1, p1, w2, w3)
    idx = m.INDEXES[idx_i]
    option = m.OPTIONS[opt]
    with zreal.TempZdir("c17r") as z:
        _make_dir(m, z, idx)
        out, rc, calls = _real_run(m, z, line, zoq, option, idx)

        class _FS:
            files = {m.ZDIR + "/" + str(p.relative_to(z)): "" for p in z.rglob("*") if p.is_file()}
        w_out, w_rc, w_calls = m.o_action(line, zoq, option, idx, _FS, 3)
        norm = lambda xs: [x.replace(str(z), m.ZDIR) for x in xs]  # noqa: E731
        got = (norm(out), rc, [(k, tuple(vv.replace(str(z), m.ZDIR) for vv in v) if isinstance(v, tuple) else v.replace(str(z), m.ZDIR))
                               for k, v in calls])
        want = (w_out, w_rc, w_calls)
        bad = got != want
        rel = None
        ts = m.o_targets(line, zoq)
        if not bad and len(ts) >= 2 and option is not None and (option == -1 or 1 <= option <= len(ts)):
            t = ts[-1] if option == -1 else ts[option - 1]
            out1, rc1, calls1 = _real_run(m, z, "see " + t + " there", zoq, None, idx)
            if (out1, rc1, calls1) != (out, rc, calls):
                bad, rel = True, (out1, rc1, calls1)
    return bad, {"summary": "line %r (%s page, option %r): answered %r rc=%r calls=%r; expected %r rc=%r calls=%r%s" % (
        line, ".zoq" if zoq else ".zo", option, got[0], got[1], got[2], want[0], want[1], want[2],
        "" if rel is None else "; a line with only the chosen target answers %r" % (rel,)), "line": line}


def main():
    tier = sys.argv[1] if len(sys.argv) > 1 else "quick"
    seed = int(sys.argv[2]) if len(sys.argv) > 2 else 0
    rep = Report("C17", tier, seed)
    os.environ["XH_MENUS"] = "thorough" if tier != "quick" else "quick"     # the tables of this process = the workers' tables
    m = _load()
    rep.describe(
        explanation=(
            "CrossHair/z3 symbolic execution of the real run_action_open, _open_link and the _open_* functions over lines = "
            "prefix x word x punctuation x optional second and third word, in .zo and .zoq pages, for option indices "
            "none/-1/1/2/3 and two index contents. Oracle from the statement: only EDIT/SEARCH/PROMPT/ECHO lines; targets in "
            "line order = page, local, global, reference links and every ZID except the note's own; one target opened directly, "
            "several offered through PROMPT, option k / -1 selects; [[p]]/[[p#a]] -> EDIT zdir/p.zo (+ SEARCH LID::a), binary "
            "extensions handed to `open`; ZID/ID/RID resolve to the owning note's page; and the relational clause option k == "
            "line with only the k-th target."),
        functions=["zorg.app.runners._run_action.run_action_open/_open_link/_open_file_link/_open_local_link/_open_global_link/"
                   "_open_rid_link/_open_zid_link/_is_local_link/_is_priority/_is_prefix_symbol",
                   "zorg.shared.dates.is_zid/is_short_date_spec"],
        stubs=["c.prepend_zdir over an in-memory FS; print captured", "note_utils.get_note_by_zid/get_notes_by_id answer from the "
               "harness index (real SQLite index in replay)", "init_from_template, subprocess.run, .zoq refresh recorded"],
        bounds=["%d prefixes x %d words x punctuation x second word x third word x .zo/.zoq x options x 3 index contents (unique owners; an ID on two pages; an ID twice on one page); "
                "quick uses sub-menus (second word from 6, punctuation 2, third word 2, options none/-1/2), thorough the full menus; "
                "family action_n covers the WHOLE product of the tier's menus (real runner untraced per solver-chosen entry), "
                "family action re-does the primary-ZID prefix and the bare continuation line with the runner under tracing" % (
                    len(m.PREFIXES), len(m.WORDS))],
        outside=["z:: cite keys and named-URL ([!u]) opening (external programs)", "query-line refresh in .zoq pages",
                 "lines with more than three words after the prefix; tabs"])
    thorough = tier != "quick"
    T = 200 if not thorough else 420
    env0 = {"XH_MENUS": "thorough" if thorough else "quick"}
    conds = []
    # (1) the whole menu product of the tier, one table index per choice, the real runner untraced (ms per choice)
    n_all = len(m.ADM)
    step = 3500 if not thorough else 20000
    for lo in range(0, n_all, step):
        hi = min(n_all, lo + step)
        conds.append(xh.Cond(H, "action_n", timeout=T * 2, env=dict(env0, XH_N="%d-%d" % (lo, hi)),
                             cc={"ranges": [[lo, hi]], "max": 300 if not thorough else 1500},
                             meta={"variant": "n[%d:%d]" % (lo, hi), "family": "action_n",
                                   "bound": "menu product entries %d..%d of %d" % (lo, hi - 1, n_all)}))
    # (2) the same obligation with the real runner under CrossHair's tracing (0.25 s per path): the primary-ZID prefix (.zo
    #     and .zoq) and the bare continuation line
    #     (always over the QUICK sub-menus: with the full menus a condition has ~2,300 traced paths and does not finish;
    #     the full product is family (1)'s)
    wstep = 2 if thorough else 4
    for pre, zqs in ((4, ("0", "1")), (len(m.PREFIXES) - 1, ("0",))):
        for lo in range(0, len(m.WORDS), wstep):
            for zq in zqs:
                conds.append(xh.Cond(H, "action", timeout=T,
                                     env=dict(env0, XH_MENUS="quick", XH_PREFIX=pre, XH_W1="%d-%d" % (lo, lo + wstep), XH_ZOQ=zq),
                                     meta={"variant": "prefix%d-w1[%d:%d]-zoq%s" % (pre, lo, lo + wstep, zq), "family": "action",
                                           "bound": "traced; prefix %r, first word in %r, %s page" % (
                                               m.PREFIXES[pre], m.WORDS[lo:lo + wstep], ".zoq" if zq == "1" else ".zo")}))
    conds.append(xh.Cond(H, "action", timeout=30, twin=True, env=dict(env0, XH_MENUS="quick", XH_PREFIX=4, XH_W1="0-4", XH_ZOQ="0"),
                         meta={"variant": "prefix4-w1[0:4]-zoq0", "family": "twin"}))
    conds.append(xh.Cond(H, "action_n", timeout=30, twin=True, env=dict(env0, XH_N="100-150"), meta={"variant": "n[100:150]", "family": "twin"}))
    results = xh.run_all(conds)
    handle_xh(rep, results, replayer)
    rep.sample({"line": m.build_line(5, 2, 2, 7, 1), "page": ".zo", "option": 2})
    sys.exit(rep.finish())


if __name__ == "__main__":
    main()
