"""C13: tables shared by the model harness (c13_h.py), the real-run harness (c13_real_h.py) and the driver - no patching."""
NAMES = ["a.zo", "s/b.zo"]
# per page j: v1 / v2 = the page's stamped note before / after an edit; vn = a note without ZID (indexing it triggers the
# write-back); vnz = such a page once stamped by an EARLIER run (ZIDs 240509#00 / #01: yesterday's, so that today's
# allocations start from an empty or a used counter independently of them)
def _texts(j):
    # (v1 / v2 carry a tag shared by both pages and, v2, a property: in the real repo removing such a note commits the
    # deletion of its property link - and of the tag row when no other note carries it - BEFORE the page row goes)
    return [None, "# t\n\n- 24010%d#01 one #w\n" % (j + 1), "# t\n\n- 24010%d#01 two #w k::v%d\n" % (j + 1, j), "# t\n\n- fresh%d\n" % j,
            "# t\n\n- 240509#0%d fresh%d\n" % (j, j),
            # an edited note AND a new ZID-less note on one page: two write-backs are queued for it
            "# t\n\n- 24010%d#01 two #w k::v%d\n- fresh%d\n" % (j + 1, j, j),
            # two stamped notes, the SECOND with a tag and a property no other note carries (removing the page from the
            # real repo deletes those rows while the first note's deletion is already pending) ...
            "# t\n\n- 24010%d#01 one #w\n- 24010%d#02 other #u%d j::x%d\n" % (j + 1, j + 1, j, j),
            # ... and the same page with its FIRST note edited
            "# t\n\n- 24010%d#01 two #w\n- 24010%d#02 other #u%d j::x%d\n" % (j + 1, j + 1, j, j)]


TEXTS = [_texts(0), _texts(1)]
FILE_STATES = [0, 1, 2, 3, 5, 6, 7]   # indices into TEXTS[j]: absent, v1, v2, vn, v2 + vn, two notes, two notes (first edited)
INDEX_STATES = [0, 1, 2, 4, 6]        # absent, v1, v2, vnz, two notes
HASH_STATES = [0, 1, 2, 4, 6]
MAXK = 40                                # more than the effects of any run in this model (condition `effects`)


def bodies(text):
    return [ln[2:] for ln in text.split("\n") if ln.startswith("- ")]


def mdate_of(body):
    w = body.split(" ")[0]
    return w if (len(w) == 6 and w.isdigit()) else None


def zid_of(body):
    ws = body.split(" ")
    w = ws[1] if (mdate_of(body) and len(ws) > 1) else ws[0]
    return w if (len(w) in (9, 10) and w[6:7] == "#") else None


def invariant_state(f, i, h):
    """per-page pre-states: the C06 invariants (entry H(T) => index holds T; indexed => has an entry)"""
    if not HASH_STATES[h]:
        return not INDEX_STATES[i]
    return INDEX_STATES[i] == HASH_STATES[h]


VALID = [(f, i, h) for f in range(len(FILE_STATES)) for i in range(len(INDEX_STATES)) for h in range(len(HASH_STATES))
         if invariant_state(f, i, h)]


def mask_new_zids(text):
    """a page's text with the VALUES of today's ZIDs masked (which suffix a new note gets depends on how often the
    counter was bumped before the kill): what an interrupted-and-repeated run must share with an uninterrupted one"""
    out = []
    for ln in text.split("\n"):
        ws = ln.split(" ")
        out.append(" ".join("240510#??" if (w.startswith("240510#") and len(w) in (9, 10)) else w for w in ws))
    return "\n".join(out)
def strip_zids(text):
    """the user's text of a page: the ZID in front of a note, and a YYMMDD modify date in front of that, are zorg's"""
    out = []
    for ln in text.split("\n"):
        if ln.startswith("- "):
            ws = ln[2:].split(" ")
            if len(ws) > 1 and len(ws[0]) == 6 and ws[0].isdigit() and zid_of(" ".join(ws[1:])):
                ws = ws[1:]
            if zid_of(" ".join(ws)):
                ws = ws[1:]
            ln = "- " + " ".join(ws)
        out.append(ln)
    return "\n".join(out)


