"""C18 CrossHair harness: file-group expansion flattens groups in place and in order.

Real code under symbolic execution: zorg.service.file_groups.expand_file_group_paths,
_paths_from_file_group (mutual recursion, str.format with days / yyyymmdd).
Stub: the clock (datetime.now) - naive local time NOW in a zone UTC_OFFSET_H hours from UTC;
now(tz) returns the same instant in tz.
"""
import datetime as dt
from pathlib import Path

from vlib import hx
from vlib.hx import V
from zorg.service import file_groups as fg

hx.stub_loggers()
hx.patch_clock(fg)

# member menu: what one entry of a group can be.  "@1"/"@2" refer to groups g1/g2 (only from a
# lower-numbered group: acyclic), "P" is a plain path (symbolic text), the rest are date patterns.
MEMBERS = ["", "@g1", "@g2", "P", "{yyyymmdd[0]}.zo", "log/{yyyymmdd[6]}.zo", "{days[1]:%Y}/{days[1]:%m}/{days[1]:%d}.zo",
           "w/{yyyymmdd[3]}-{yyyymmdd[2]}.zo"]
# local wall-clock times: around the end of February of a leap year, around a year boundary, and on a day whose ISO
# week-numbering year differs from its calendar year (Sat 2021-01-02 belongs to ISO year 2020)
NOWS = [(2024, 3, 1, 0, 30), (2024, 3, 3, 23, 30), (2025, 1, 4, 12, 0), (2021, 1, 2, 9, 0)]


def o_member(m, plain, today):
    """independent expansion of a non-group member for the local calendar day `today`"""
    def ymd(i):
        d = today - dt.timedelta(days=i)
        return "%04d%02d%02d" % (d.year, d.month, d.day)
    if m == "P":
        return plain
    if m == "{yyyymmdd[0]}.zo":
        return ymd(0) + ".zo"
    if m == "log/{yyyymmdd[6]}.zo":
        return "log/" + ymd(6) + ".zo"
    if m == "{days[1]:%Y}/{days[1]:%m}/{days[1]:%d}.zo":
        d = today - dt.timedelta(days=1)
        return "%04d/%02d/%02d.zo" % (d.year, d.month, d.day)
    if m == "w/{yyyymmdd[3]}-{yyyymmdd[2]}.zo":
        return "w/" + ymd(3) + "-" + ymd(2) + ".zo"
    assert "{" not in m, m
    return m          # a literal member path


def o_expand_group(name, groups, plain, today):
    out = []
    for m in groups[name]:
        if m.startswith("@"):
            out.extend(o_expand_group(m[1:], groups, plain, today))
        else:
            out.append(o_member(m, plain, today))
    return out


def o_expand(args, groups, plain, today):
    out = []
    for a in args:
        if a.startswith("@"):
            out.extend(o_expand_group(a[1:], groups, plain, today))
        else:
            out.append(a)
    return out


def build(m00, m01, m02, m10, m11, m20, plain):
    """g0 may refer to g1 and g2, g1 to g2 only, g2 to nothing (acyclic, shared sub-groups allowed)"""
    def mem(i):
        return MEMBERS[i]
    g0 = [mem(i) for i in (m00, m01, m02) if mem(i)]
    g1 = [mem(i) for i in (m10, m11) if mem(i) and mem(i) != "@g1"]
    g2 = [mem(i) for i in (m20,) if mem(i) and not mem(i).startswith("@")]
    groups = {"g0": g0, "g1": g1, "g2": g2}
    real = {k: [plain if m == "P" else m for m in v] for k, v in groups.items()}
    return groups, real


ARGS = ["@g0", "@g1", "@g2", "x.zo", "sub/y.zo"]
SMALL = ["", "@g1", "@g2", "P"]          # structural members only (no date patterns)
PIN_M00 = __import__("os").environ.get("XH_M00", "")


def set_clock(now_i, off):
    # (built while tracing, so that arithmetic with CrossHair's timedelta works)
    hx.FixedDateTime.NOW = dt.datetime(*NOWS[now_i])
    hx.FixedDateTime.UTC_OFFSET_H = off
    y, m, d = NOWS[now_i][:3]
    return dt.date(y, m, d)


def _run(groups, real, args, today):
    got = fg.expand_file_group_paths([Path(a) if not a.startswith("@") else a for a in args], file_group_map=real)
    want = o_expand(args, groups, "p.zo", today)
    return [str(p) for p in got] == [str(Path(w)) for w in want]


def nesting(m00: int, m01: int, m10: int, a1: int) -> bool:
    """
    pre: 0 <= m00 < 4 and 0 <= m01 < 4 and 0 <= m10 < 4 and -1 <= a1 < 3
    post: _
    """
    # acyclic structures g0 -> {g1, g2}, g1 -> {g2}: g0 = two members from {absent, @g1, @g2, plain},
    # g1 = one such member (not @g1) followed by q.zo, g2 = [r.zo]: shared sub-groups, diamonds, the
    # same group twice, a group that is also an argument.  arguments: @g0 then nothing/@g1/@g2/x.zo
    today = set_clock(0, 0)
    g0 = [SMALL[i] for i in (m00, m01) if SMALL[i]]
    g1 = [SMALL[i] for i in (m10,) if SMALL[i] and SMALL[i] != "@g1"] + ["q.zo"]
    groups = {"g0": g0, "g1": g1, "g2": ["r.zo"]}
    real = {k: ["p.zo" if m == "P" else m for m in v] for k, v in groups.items()}
    args = ["@g0"] + ([["@g1", "@g2", "x.zo"][a1]] if a1 >= 0 else [])
    return V(_run(groups, real, args, today))


def dates(m: int, nested: bool, now_i: int, off: int) -> bool:
    """
    pre: 4 <= m < 8 and 0 <= now_i < len(NOWS) and off in (-12, 0, 14)
    post: _
    """
    # date patterns are filled with the LOCAL calendar day and the six days before it, on days
    # around a month/year boundary, whatever the zone's offset from UTC
    today = set_clock(now_i, off)
    groups = {"g0": ["@g1", "P"] if nested else [MEMBERS[m], "P"], "g1": [MEMBERS[m]], "g2": []}
    real = {k: ["p.zo" if x == "P" else x for x in v] for k, v in groups.items()}
    return V(_run(groups, real, ["x.zo", "@g0"], today))


def two_days(m: int, nested: bool, now_a: int, now_b: int) -> bool:
    """
    pre: 4 <= m < 8 and 0 <= now_a < len(NOWS) and 0 <= now_b < len(NOWS) and now_a != now_b
    post: _
    """
    # the same configuration expanded twice in ONE process on two different days: each expansion uses the day it runs on
    # (nothing date-dependent may be remembered between calls)
    groups = {"g0": ["@g1", "P"] if nested else [MEMBERS[m], "P"], "g1": [MEMBERS[m]], "g2": []}
    real = {k: ["p.zo" if x == "P" else x for x in v] for k, v in groups.items()}
    day_a = set_clock(now_a, 0)
    ok_a = _run(groups, real, ["x.zo", "@g0"], day_a)
    day_b = set_clock(now_b, 0)
    ok_b = _run(groups, real, ["x.zo", "@g0"], day_b)
    return V(ok_a and ok_b)


def concat(m00: int, m01: int, m10: int, a0: int, a1: int, a2: int) -> bool:
    """
    pre: 0 <= m00 < 4 and 0 <= m01 < 4 and 0 <= m10 < 4
    pre: 0 <= a0 < 3 and 0 <= a1 < 3 and a2 == 2 and m01 in (0, 2) and m10 in (0, 2)
    post: _
    """
    # expanding a concatenation of lists equals concatenating their expansions
    set_clock(0, 0)
    g0 = [SMALL[i] for i in (m00, m01) if SMALL[i]]
    g1 = [SMALL[i] for i in (m10,) if SMALL[i] and SMALL[i] != "@g1"]
    real = {"g0": ["p.zo" if m == "P" else m for m in g0], "g1": ["q.zo" if m == "P" else m for m in g1], "g2": ["r.zo"]}
    A = ["@g0", "@g1", "x.zo"]
    xs, ys = [A[a0]], [A[a1], A[a2]]
    e = lambda zs: [str(p) for p in fg.expand_file_group_paths(zs, file_group_map=real)]  # noqa: E731
    return V(e(xs + ys) == e(xs) + e(ys))


PLAIN = ["a", "a.b", "sub/a.zo", "-x.zo", "a b.zo", "%Y.zo", "@"]


def plain_name(i: int, k: int) -> bool:
    """
    pre: 0 <= i < len(PLAIN) and 0 <= k <= 1
    post: _
    """
    # ordinary paths pass through untouched, at their position: as arguments (any text not starting
    # with '@') and as group members (any text without '@' prefix and without braces)
    set_clock(0, 0)
    name = PLAIN[i]
    member = name if not name.startswith("@") else "m.zo"
    real = {"g0": ["first.zo", member, "last.zo"]}
    args = ["a.zo", "a.zo"]
    if not name.startswith("@"):
        args[k] = name
    got = [str(p) for p in fg.expand_file_group_paths(args + ["@g0"], file_group_map=real)]
    want = [str(Path(a)) for a in args] + ["first.zo", str(Path(member)), "last.zo"]
    return V(got == want)
