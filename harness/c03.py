"""C03 — A WHERE filter returns exactly the indexed notes that satisfy it.   (DESIGN.md §4)

Engine SQL: for every filter shape the REAL to_sql_select builds its SQLAlchemy statement; the statement's clause
tree is interpreted over a symbolic database (K rows per table, every column a z3 constant) and compared with the
meaning of the filter written from the statement (harness/c03_spec.py):
    exists database, note:  well-formed(database) and present(note) and  SQL-selects(note) != meaning(filter, note)
unsat = equivalent on every database within the table-size bound; sat = a concrete database, materialised through
the real SQLModel classes into a real SQLite file and replayed with the real converter and the real statement.
Helpers that query the session WHILE converting (case-sensitive text filters, link filters) are run against a stub
session whose Python-level decisions are fork bits (tier 2).
"""
import os as _os
_os.environ["XH_NO_PATCH"] = "1"   # this process replays on the real code: never patch zorg here

import datetime as dt
import os
import sys
import time

import z3

from vlib import sql2smt as sq
from vlib import zreal
from vlib.driver import Report, known_findings
from harness import c03_spec as sp


class NoSession:
    """tier-1 shapes must not touch the session while converting"""

    def exec(self, *a, **k):
        raise NeedsSession()


class NeedsSession(Exception):
    pass


# ------------------------------------------------------------------ model -> concrete rows -> real SQLite
def model_rows(model, db):
    def ev(t):
        return model.eval(t, model_completion=True)
    out = {}
    for table, rows in db.rows.items():
        out[table] = []
        for r in rows:
            if not z3.is_true(ev(r.present)):
                continue
            rec = {}
            for col, term in r.cols.items():
                if isinstance(term, sq.PVal):
                    kind = ev(term.kind).as_long()
                    if kind == 0:
                        rec[col] = (sq.EPOCH + dt.timedelta(days=ev(term.date).as_long())).strftime("%Y-%m-%d")
                    elif kind == 1:
                        rec[col] = str(ev(term.int).as_long())
                    else:
                        rec[col] = ev(term.text).as_string()
                    rec[col + "_kind"] = kind
                elif z3.is_true(ev(r.nulls[col])):
                    rec[col] = None
                elif z3.is_string(term):
                    rec[col] = ev(term).as_string()
                elif z3.is_int(term):
                    rec[col] = ev(term).as_long()
                else:
                    rec[col] = z3.is_true(ev(term))
            out[table].append(rec)
    return out


def truth(m, f):
    """truth value of formula f under model m; when the evaluator leaves a term unreduced (string order comparisons),
    pin every constant of f to its model value and ask the solver"""
    v = m.eval(f, model_completion=True)
    if z3.is_true(v):
        return True
    if z3.is_false(v):
        return False
    s = z3.Solver()
    s.set("timeout", 20000)
    seen = set()

    def consts(e):
        if z3.is_const(e) and e.decl().kind() == z3.Z3_OP_UNINTERPRETED:
            if e.get_id() not in seen:
                seen.add(e.get_id())
                s.add(e == m.eval(e, model_completion=True))
        for ch in e.children():
            consts(ch)
    consts(f)
    s.add(f)
    r = str(s.check())
    if r == "sat":
        return True
    if r == "unsat":
        return False
    raise sq.Unsupported("cannot evaluate a formula under the model (%s)" % r)


def _unescape(s):
    # z3 prints non-printable / some characters as \u{..}
    import re
    return re.sub(r"\\u\{([0-9a-fA-F]+)\}", lambda m: chr(int(m.group(1), 16)), s)


def materialise(rows, z):
    """insert the rows through the real SQLModel classes into a fresh SQLite file"""
    from sqlmodel import Session, SQLModel, create_engine
    from zorg.domain.types import NoteType
    from zorg.storage.sql import _models as sql
    eng = create_engine("sqlite:///%s/c03.db" % z)
    SQLModel.metadata.create_all(eng)
    s = Session(eng)
    fix = lambda v: _unescape(v) if isinstance(v, str) else v  # noqa: E731
    for p in rows["page"]:
        s.add(sql.Page(id=p["id"], path=fix(p["path"]), has_errors=False))
    for n in rows["note"]:
        s.add(sql.Note(id=n["id"], body=fix(n["body"]), line_no=n["line_no"], zid=fix(n["zid"]),
                       create_date=sq.EPOCH + dt.timedelta(days=n["create_date"]), modify_date=sq.EPOCH + dt.timedelta(days=n["modify_date"]),
                       todo_priority=n["todo_priority"], todo_status=NoteType[n["todo_status"]] if n["todo_status"] else None,
                       page_path=fix(n["page_path"])))
    for t, cls, lcls, fk in (("area", sql.Area, sql.AreaLink, "area_id"), ("context", sql.Context, sql.ContextLink, "context_id"),
                             ("person", sql.Person, sql.PersonLink, "person_id"), ("project", sql.Project, sql.ProjectLink, "project_id"),
                             ("link", sql.Link, sql.LinkLink, "link_id")):
        for r in rows[t]:
            s.add(cls(id=r["id"], name=fix(r["name"])))
        for r in rows[t + "link"]:
            s.add(lcls(note_id=r["note_id"], **{fk: r[fk]}))
    for r in rows["property"]:
        s.add(sql.Property(id=r["id"], name=fix(r["name"])))
    for r in rows["propertylink"]:
        s.add(sql.PropertyLink(note_id=r["note_id"], prop_id=r["prop_id"], value=fix(r["value"])))
    s.commit()
    return s


def replay(orf, rows, expected_ids):
    """real converter + real statement on real SQLite; returns (differs, selected ids)"""
    from zorg.storage.sql._query_converter import to_sql_select
    with zreal.TempZdir("c03r") as z:
        s = materialise(rows, z)
        try:
            stmt = to_sql_select(orf, s)
            got = sorted(n.id for n in s.exec(stmt).all())
        finally:
            s.close()
    return got != sorted(expected_ids), got


# ------------------------------------------------------------------ tier 2: a session stub whose answers are fork bits
class Forker:
    def __init__(self, script):
        self.script, self.trace = list(script), []

    def decide(self, cond):
        i = len(self.trace)
        v = self.script[i] if i < len(self.script) else False
        self.trace.append((cond, v))
        return v


def explore(run, limit=4000):
    """run the converter once per reachable assignment of the Python-level decisions (depth-first over the bits)"""
    leaves, stack = [], [[]]
    while stack:
        script = stack.pop()
        fk = Forker(script)
        res = run(fk)
        leaves.append((fk.trace, res))
        for i in range(len(script), len(fk.trace)):
            stack.append([v for _c, v in fk.trace[:i]] + [True])
        if len(leaves) > limit:
            raise sq.Unsupported("more than %d converter runs" % limit)
    return leaves


class SymInt:
    z3kind = "int"

    def __init__(self, term):
        self.z3term = term


class SymStr:
    """a symbolic text that flows through Python string formatting: renders as a marker the encoder maps back"""

    def __init__(self, term, registry):
        self.term = term
        self.marker = "\x00S%d\x00" % len(registry)
        registry[self.marker] = term

    def __format__(self, spec):
        return self.marker

    def __str__(self):
        return self.marker


class SymBody:
    def __init__(self, term, fk):
        self.term, self.fk = term, fk

    def __contains__(self, value):
        # (as a regex membership: z3 mixes regex constraints far better with other regex constraints than with str.contains)
        return self.fk.decide(z3.InRe(self.term, sq.contains_regex(value, ci=False)))


class SymName:
    def __init__(self, db, pl, fk):
        self.db, self.pl, self.fk = db, pl, fk

    def __eq__(self, other):
        return self.fk.decide(z3.Or(*[z3.And(p.present, p.cols["id"] == self.pl.cols["prop_id"], p.cols["name"] == z3.StringVal(other))
                                      for p in self.db.rows["property"]]))

    __hash__ = None


class StubProp:
    def __init__(self, name):
        self.name = name


class StubPL:
    def __init__(self, db, pl, fk, registry):
        self.prop = StubProp(SymName(db, pl, fk))
        self.value = SymStr(pl.cols["value"].text, registry)


class StubNote:
    def __init__(self, db, n, fk, registry):
        self._db, self._n, self._fk, self._reg = db, n, fk, registry
        self.zid = SymStr(n.cols["zid"], registry)

    @property
    def property_links(self):
        out = []
        for pl in self._db.rows["propertylink"]:
            if self._fk.decide(z3.And(pl.present, pl.cols["note_id"] == self._n.cols["id"])):
                out.append(StubPL(self._db, pl, self._fk, self._reg))
        return out


class _Result:
    def __init__(self, rows):
        self.rows = rows

    def all(self):
        return list(self.rows)

    def __iter__(self):
        return iter(self.rows)


class StubSession:
    """answers the converter's own queries over the symbolic database: whether a row is in a result is a fork bit whose
    defining condition is the encoding of that very statement"""

    def __init__(self, db, enc, fk, registry):
        self.db, self.enc, self.fk, self.registry = db, enc, fk, registry

    def exec(self, stmt):
        ncols = len(list(stmt.selected_columns))
        rows = []
        for n in self.db.rows["note"]:
            if self.fk.decide(self.enc.selects(stmt, n)):
                if ncols == 2:
                    rows.append((SymInt(n.cols["id"]), SymBody(n.cols["body"], self.fk)))
                else:
                    rows.append(StubNote(self.db, n, self.fk, self.registry))
        return _Result(rows)


# ------------------------------------------------------------------ one shape
def encode_sql(orf, db):
    """z3: for each note row, 'the real statement for this filter returns the row'"""
    from zorg.storage.sql._query_converter import to_sql_select
    registry = {}
    enc = sq.Encoder(db, registry)

    def run(fk):
        return to_sql_select(orf, StubSession(db, enc, fk, registry))
    leaves = explore(run)
    per_note = []
    for n in db.rows["note"]:
        alts = []
        for trace, stmt in leaves:
            guard = [c if v else z3.Not(c) for c, v in trace]
            alts.append(z3.And(*(guard + [enc.selects(stmt, n)])))
        per_note.append(z3.Or(*alts))
    return per_note, len(leaves), enc


def decide(name, orf, k, timeout_ms, sizes=None, exclude=None):
    """returns a plain (picklable) record: status unsat | sat | inconclusive | error, detail, secs, and for sat the
    counter-database, the notes that satisfy the filter there, what real SQLite returned, and whether they differ"""
    t0 = time.time()
    db = sq.DB(k=k, sizes=sizes)
    rec = {"name": name, "status": "error", "detail": "", "secs": 0.0}
    try:
        sql_sel, runs, enc = encode_sql(orf, db)
        cons = sp.well_formed(db, sp.typed_keys_of(orf))
        diffs = [z3.And(n.present, s_ != sp.spec_or(orf, db, n)) for n, s_ in zip(db.rows["note"], sql_sel)]
    except sq.Unsupported as e:
        rec["detail"] = "outside the encoder: %s" % e
        return rec
    solver = z3.Solver()
    solver.set("timeout", timeout_ms)
    solver.add(*cons)
    solver.add(z3.Or(*diffs))
    if exclude is not None:
        solver.add(exclude(db))
    res = str(solver.check())
    rec["secs"] = time.time() - t0
    rec["detail"] = "%d converter run(s), %d tree nodes" % (runs, enc.nodes)
    if res == "unsat":
        rec["status"] = "unsat"
        rec["validation"] = validate_model(orf, db, cons, sql_sel)
        return rec
    if res != "sat":
        rec["status"] = "inconclusive"
        rec["detail"] = "z3: %s; %s" % (res, rec["detail"])
        return rec
    m = solver.model()
    rows = model_rows(m, db)
    expected = [m.eval(r.cols["id"], model_completion=True).as_long() for r in db.rows["note"]
                if z3.is_true(m.eval(r.present, model_completion=True)) and truth(m, sp.spec_or(orf, db, r))]
    rec.update(status="sat", rows={t: v for t, v in rows.items() if v}, expected=expected)
    try:
        differs, got = replay(orf, rows, expected)
        rec.update(differs=differs, got=got)
    except Exception as e:  # noqa
        rec.update(status="error", detail="replay crashed: %s: %s" % (type(e).__name__, e))
    return rec


def validate_model(orf, db, cons, sql_sel):
    """translation validation of the SQL encoding: ask z3 for a database on which the statement SELECTS note 0 and for one
    on which it REJECTS note 0, build both in real SQLite and run the real statement; the model's prediction must hold"""
    out = []
    n0 = db.rows["note"][0]
    for want in (True, False):
        s = z3.Solver()
        s.set("timeout", 30000)
        s.add(*cons)
        s.add(n0.present, sql_sel[0] if want else z3.Not(sql_sel[0]))
        r = str(s.check())
        if r != "sat":
            out.append({"want_selected": want, "result": r})      # (a filter may select / reject everything: unsat is fine)
            continue
        m = s.model()
        rows = model_rows(m, db)
        predicted = [m.eval(x.cols["id"], model_completion=True).as_long() for x, sel in zip(db.rows["note"], sql_sel)
                     if z3.is_true(m.eval(x.present, model_completion=True)) and truth(m, sel)]
        try:
            differs, got = replay(orf, rows, predicted)
        except Exception as e:  # noqa
            out.append({"want_selected": want, "result": "replay crashed: %s: %s" % (type(e).__name__, e)})
            continue
        out.append({"want_selected": want, "result": "agrees" if not differs else "DISAGREES", "predicted": predicted, "sqlite": got,
                    "rows": {t: v for t, v in rows.items() if v} if differs else None})
    return out


NOTES3_MS = int(os.environ.get("VERIF_C03_NOTES3_MS", "90000"))


def _worker(args):
    tier, idx, timeout_ms, excl_ids = args
    name, orf = sp.shapes(tier)[idx]
    sizes = {"propertylink": 1, "property": 1} if name.startswith("link-") else None
    exclude = None
    if excl_ids:
        exclude = lambda db: z3.And(*[z3.Not(sp.KNOWN_PREDICATES[i](orf, db)) for i in excl_ids if sp.KNOWN_PREDICATES[i](orf, db) is not None] or [z3.BoolVal(True)])  # noqa: E731
    try:
        # deeper bound first: 3 note rows (the other tables as before); a 3-row database subsumes every 2-row one through
        # the presence bits. Only when z3 does not decide it inside its share of the budget is the 2-note bound used.
        if name.startswith("link-"):
            # link shapes (97 converter runs each, OR-ed under their fork bits) take ~400 s with 3 note rows: they stay at 2
            r = decide(name, orf, 2, timeout_ms, sizes=sizes, exclude=exclude)
            r["bound_notes"] = 2
            return r
        r = decide(name, orf, 2, min(timeout_ms, NOTES3_MS), sizes=dict(sizes or {}, note=3), exclude=exclude)
        r["bound_notes"] = 3
        if r["status"] == "inconclusive":
            r3 = r
            r = decide(name, orf, 2, timeout_ms, sizes=sizes, exclude=exclude)
            r["bound_notes"] = 2
            r["detail"] = "%s; the 3-note query was inconclusive after %.0f s (%s)" % (r["detail"], r3["secs"], r3["detail"])
        return r
    except Exception as e:  # noqa
        import traceback
        return {"name": name, "status": "error", "detail": "%s: %s %s" % (type(e).__name__, e, traceback.format_exc()[-400:]), "secs": 0.0}


def main():
    import concurrent.futures as cf
    tier = sys.argv[1] if len(sys.argv) > 1 else "quick"
    seed = int(sys.argv[2]) if len(sys.argv) > 2 else 0
    rep = Report("C03", tier, seed)
    shapes = sp.shapes(tier)
    kf_active, _ = known_findings("C03")
    kf_ids = sorted(e["id"] for e in kf_active)
    timeout_ms = 120000 if tier == "quick" else 600000
    jobs = [(tier, i, timeout_ms, kf_ids) for i in range(len(shapes))]
    with cf.ProcessPoolExecutor(max_workers=int(os.environ.get("VERIF_JOBS", "16"))) as ex:
        results = list(ex.map(_worker, jobs))
    describe(rep, shapes, tier)
    validated = 0
    control(rep)
    for (name, orf), r in zip(shapes, results):
        if r["status"] == "unsat":
            rec = rep.add("equiv:" + name, "z3", "unsat", "SQL == meaning on every database within the bound, %d note rows (%s)" % (r.get("bound_notes", 2), r["detail"]), r["secs"], family="equiv")
            rec["bound_note_rows"] = r.get("bound_notes", 2)
            val = r.get("validation") or []
            rec["model_validated_on_sqlite"] = [v["result"] for v in val]
            validated += sum(1 for v in val if v["result"] == "agrees")
            for v in val:
                if v["result"] in ("unknown",):
                    rep.note("model validation of %s (%s case): z3 gave no database in 30 s" % (name, "selected" if v["want_selected"] else "rejected"))
                elif v["result"] not in ("agrees", "unsat"):
                    rep.harness_error("SQL model of %s disagrees with real SQLite (%s): predicted %r, SQLite %r, rows %r" % (
                        name, v["result"], v.get("predicted"), v.get("sqlite"), v.get("rows")))
        elif r["status"] == "inconclusive":
            rep.add("equiv:" + name, "z3", "inconclusive", r["detail"], r["secs"], family="equiv")
        elif r["status"] == "error":
            rep.add("equiv:" + name, "z3", "error", r["detail"], r["secs"], family="equiv")
        else:
            rec = rep.add("equiv:" + name, "z3", "sat", "counter-database found (%s)" % r["detail"], r["secs"], family="equiv", witness=r["rows"])
            rec["reproduced"] = r["differs"]
            if r["differs"]:
                rep.violation("filter %s: on the database %r the query returns notes %r, the notes satisfying the filter are %r" % (
                    name, r["rows"], r["got"], r["expected"]),
                    {"filter": repr(orf), "database": r["rows"], "returned": r["got"], "satisfying": r["expected"]})
            else:
                rep.harness_error("counter-database of %s did not reproduce on real SQLite (a leaf model is wrong): expected %r got %r rows %r" % (
                    name, r["expected"], r["got"], r["rows"]))
    rep.note("SQL encoding validated against real SQLite on %d model-generated databases (a selected and a rejected note per shape)" % validated)
    # rows -> domain notes (CrossHair on the real SQLRepo.get_notes_by_query with a stub session / converter)
    from vlib import xh
    from vlib.driver import handle_xh
    H = os.path.join(os.path.dirname(os.path.abspath(__file__)), "c03_h.py")
    rep.describe(functions=["zorg.storage.sql._repo.SQLRepo.get_notes_by_query/_get_page/_record_seen_page", "zorg.shared.common.get_only_item"],
                 stubs=["get_notes_by_query: the session yields up to 3 of 4 rows (2 pages, one ZID on both), the page converter returns the "
                        "row's domain page, blocks hang off H1..H4"])
    res = xh.run_all([xh.Cond(H, "rows_to_notes", timeout=120, meta={"family": "rows"}),
                      xh.Cond(H, "rows_to_notes", timeout=30, twin=True, meta={"family": "twin"})])
    handle_xh(rep, res, replay_rows)
    sys.exit(rep.finish())


def replay_rows(name, args, kwargs, meta):
    """real index: two real pages sharing a ZID, `db create`, real get_notes_by_query through a real session"""
    from zorg.domain.models import WhereAndFilter, WhereOrFilter
    from zorg.storage.sql import SQLSession
    with zreal.TempZdir("c03g") as z:
        (z / "d").mkdir()
        (z / "a.zo").write_text("# a\n\n- 240101#01 one #x\n- 240101#02 two #x\n")
        (z / "d" / "b.zo").write_text("# b\n\n- 240101#01 three #x\n- 240202#01 four #x\n")
        zreal.create_db(z)
        with SQLSession(z, zreal.db_url(z)) as s:
            got = s.repo.get_notes_by_query(WhereOrFilter([WhereAndFilter(areas={"x"})]))
        pairs = sorted((str(n.file_path), n.zid, n.body.split()[1]) for n in got)
    want = [("a.zo", "240101#01", "one"), ("a.zo", "240101#02", "two"), ("d/b.zo", "240101#01", "three"), ("d/b.zo", "240202#01", "four")]
    return pairs != sorted(want), {"summary": "get_notes_by_query over two pages sharing a ZID returns %r, expected %r" % (pairs, sorted(want))}


def control(rep):
    """negative control of the whole pipeline: against a deliberately WRONG meaning (tag presence read as absence) the
    equivalence query must come back sat and the counter-database must reproduce on real SQLite"""
    from zorg.domain.models import WhereAndFilter, WhereOrFilter
    real = WhereOrFilter([WhereAndFilter(areas={"ta"})])
    wrong = WhereOrFilter([WhereAndFilter(areas={"-ta"})])
    db = sq.DB(k=2)
    sql_sel, _runs, _enc = encode_sql(real, db)
    s = z3.Solver()
    s.set("timeout", 30000)
    s.add(*sp.well_formed(db))
    s.add(z3.Or(*[z3.And(n.present, a != sp.spec_or(wrong, db, n)) for n, a in zip(db.rows["note"], sql_sel)]))
    r = str(s.check())
    if r != "sat":
        rep.harness_error("negative control did not come back sat (%s): the equivalence query is vacuous" % r)
        return
    rep.add("control:wrong-meaning", "z3", "reachable", "control sat as required", 0.0, family="control")


def describe(rep, shapes, tier):
    rep.describe(
        explanation=(
            "For each of %d filter shapes the real to_sql_select builds its statement; the statement's clause tree is interpreted "
            "over a symbolic database (3 note rows, 2 rows in every other table, every column a z3 constant, presence bits, SQL three-valued logic, joins "
            "expanded over row tuples, IN / NOT IN over sub-select rows, LIKE as a regex) and compared, for every note row, with the "
            "meaning of the filter written from the statement. Helpers that query the session during conversion run against a stub "
            "session whose Python-level decisions are fork bits (one converter run per reachable assignment; the trees are OR-ed under "
            "their bits' defining conditions). unsat = equivalent on every well-formed database within the bound; sat = a "
            "counter-database, inserted through the real SQLModel classes into real SQLite and replayed with the real converter." % len(shapes)),
        functions=["zorg.storage.sql._query_converter.to_sql_select/_AndFilterToSqlWhere.* (run concretely; their OUTPUT is encoded)",
                   "_get_notes_in_file/_global_link_conds/_ref_link_conds/_zid_link_conds (through the forked session stub)"],
        stubs=["leaf models: SQLite LIKE (%, _, ESCAPE, ASCII case folding), date() / CAST(.. AS INTEGER) on a typed value union, dates as "
               "day numbers; validated by replaying every counter-database on real SQLite",
               "well-formedness of the database = the invariants of a real index (unique ids / paths / names / ZIDs, every note on one page, "
               "valid foreign keys of property links, status and priority null together)"],
        bounds=["3 note rows and 2 rows in every other table (link shapes: 2 note rows, 1 property row, 1 property link); a shape whose 3-note query z3 does not "
                "decide in %d s falls back to 2 note rows - each condition records its bound_note_rows" % (NOTES3_MS // 1000), "strings: printable ASCII, length <= %d" % sp.MAXLEN,
                "property values of the filter's key have the filter's value type (mixed-type comparisons are not judged)",
                "filter literals concrete (they steer Python branches in the converter): see the list of shapes in coverage.conditions"],
        outside=["more than 3 notes, more than 2 rows in the other tables (3 rows in EVERY table was probed and does not finish); non-ASCII text; letter case of page names in f= (folded on both sides, not judged)",
                 "SQLRepo.get_notes_by_query's mapping of rows back to domain notes; SQLite itself and SQLAlchemy's SQL rendering (replay only)"])




if __name__ == "__main__":
    main()
