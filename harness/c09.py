"""C09 — Query output renders the selected notes faithfully.   (DESIGN.md §4)

One CrossHair condition per spec (harness/c09_h.py SPECS): the real execute_with_session glue
(G -> O -> S) over 1-3 notes whose fields are solver-chosen from finite domains, compared with an
independent oracle rendering.  Counterexamples are replayed through the real, unstubbed
execute_with_session (real query compilation from the query TEXT) and, for the ordering finding,
through the whole CLI path (real files, `db create`, `zorg query`).
"""
import os as _os
_os.environ["XH_NO_PATCH"] = "1"   # this process replays on the real code: never patch zorg here

import importlib.util
import os
import shutil
import sys
import tempfile

from vlib import xh
from vlib.driver import Report, handle_xh, known_findings

HDIR = os.path.dirname(os.path.abspath(__file__))
H = os.path.join(HDIR, "c09_h.py")


def _load_h():
    os.environ.setdefault("XH_SPEC", "ord_none_lines")
    spec = importlib.util.spec_from_file_location("c09_h_replay", H)
    m = importlib.util.module_from_spec(spec)
    spec.loader.exec_module(m)
    return m


def _query_text(m, spec):
    S, G, O = m.S, m.G, m.O
    from zorg.domain.types import SelectAggregation, SelectPropertyValues

    def sel(s):
        if isinstance(s, SelectAggregation):
            return "count(%s)" % sel(s.select_type)
        if isinstance(s, SelectPropertyValues):
            return "prop:%s" % s.key
        return {S.NOTE: "note", S.FILE: "file", S.AREA: "#", S.CONTEXT: "@", S.PERSON: "%", S.PROJECT: "+",
                S.PROPERTY: "prop", S.LINKS: "links"}[s]
    gn = {G.AREA: "#", G.CONTEXT: "@", G.PERSON: "%", G.PROJECT: "+", G.FILE: "file", G.NOTE_TYPE: "type",
          G.PRIORITY: "priority", G.SECTION: "section"}
    on = {O.ALPHA: "alpha", O.CREATE_DATE: "create", O.MODIFY_DATE: "modify", O.NONE: "none",
          O.NOTE_TYPE: "type", O.PRIORITY: "priority"}
    q = "S %s W o" % sel(spec["select"])
    q += " O " + " ".join(on[o] for o in spec["order"])
    if spec["group"]:
        q += " G " + " ".join(gn[g] for g in spec["group"])
    return q


def replayer(name, args, kwargs, meta):
    """real execute_with_session: real saved-query expansion over an empty temp zdir, real ANTLR query
    compilation from text, real G/O/S; only the repo is a stub that returns the witness notes."""
    import importlib
    m = _load_h()
    if name.startswith("k_"):
        return replay_kernel(m, name, args)
    spec = m.SPEC_BY_NAME[meta["variant"]]
    idx = tuple(args)
    notes = m.build_notes(spec, idx)
    sec_label = {id(n): m.SECTION_LABEL[m.SECTIONS.index(n.block.section)] for n in notes}
    want = m.o_render(spec["select"], notes, spec["group"], spec["order"], sec_label).strip()
    real = importlib.import_module("zorg.service.swog._executor")
    real = importlib.reload(real)            # drop the harness' stubs (fresh module attributes)
    qtext = _query_text(m, spec)
    d = tempfile.mkdtemp(prefix="c09r")
    try:
        from pathlib import Path
        sess = m._Session(notes)
        sess.zdir = Path(d)
        got = real.execute_with_session(sess, qtext)
    finally:
        shutil.rmtree(d, ignore_errors=True)
    rec = {"query": qtext,
           "notes": [{"text": m.o_text(n), "path": str(n.file_path), "line": n.line_no, "areas": n.areas,
                      "contexts": n.contexts, "people": n.people, "projects": n.projects, "links": n.links,
                      "properties": n.properties, "create": str(n.create_date), "modify": str(n.modify_date),
                      "section": sec_label[id(n)]} for n in notes],
           "expected": want, "actual": got,
           "summary": "query %r over %d notes renders %r, expected %r" % (qtext, len(notes), got[:120], want[:120])}
    if got != want and name == "kf_none_text_order":
        rec["cli"] = cli_replay_none_order()
    return got != want, rec


def replay_kernel(m, name, args):
    """kernels: re-evaluate on the real keyfuncs with real pathlib paths / real Note objects"""
    from pathlib import Path
    n = m.mk(dict(m.DEFAULT, i=0))
    if name == "k_file_label":
        n.file_path = Path(args[0] + ".zo")
        got, want = m.G.FILE.keyfunc(n), "[[" + str(Path(args[0])) + "]]"
        return got != want, {"summary": "G file label of page %r is %r, expected %r" % (args[0] + ".zo", got, want)}
    if name == "k_tag_label":
        n.areas = [args[0], args[1]]
        got = m.G.AREA.keyfunc(n)
        want = " | ".join("#" + t for t in sorted([args[0], args[1]]))
        return got != want, {"summary": "G # label for areas %r is %r, expected %r" % (n.areas, got, want)}
    if name == "k_none_key":
        a, b = m.mk(dict(m.DEFAULT, i=0)), m.mk(dict(m.DEFAULT, i=1))
        a.file_path = b.file_path = Path(args[0] + ".zo")
        a.line_no, b.line_no = args[1], 5
        ka, kb = m.O.NONE.keyfunc(a), m.O.NONE.keyfunc(b)
        bad = (ka < kb) != (args[1] < 5) or (ka == kb) != (args[1] == 5)
        return bad, {"summary": "O none keys %r / %r do not order lines %d and 5" % (ka, kb, args[1])}
    return False, {"summary": "no kernel replayer for " + name}


def cli_replay_none_order():
    """whole public path for KF-C09-1: real page with notes on lines 9 and 10, db create, zorg query"""
    from pathlib import Path
    from zorg.service import messagebus
    from zorg.domain.messages import commands
    from zorg.service.swog import execute
    d = tempfile.mkdtemp(prefix="c09cli")
    try:
        z = Path(d)
        lines = ["# t", ""] + ["- 240101#%02d n%d" % (i, i) for i in range(3, 13)]
        (z / "p.zo").write_text("\n".join(lines) + "\n")
        db = "sqlite:///%s/.zorg/zorg.db" % d
        messagebus.handle(z, db, [commands.CreateDBCommand(z, False)], should_delete_existing_db=True)
        out = execute(z, db, "S note W - O none")
        got = [ln.split()[-1] for ln in out.splitlines() if ln.strip()]
        return {"page_lines": "notes n3..n12 on lines 3..12", "order_returned": got,
                "order_expected": ["n%d" % i for i in range(3, 13)]}
    except Exception as e:  # noqa
        return {"error": "%s: %s" % (type(e).__name__, e)}
    finally:
        shutil.rmtree(d, ignore_errors=True)


def main():
    tier = sys.argv[1] if len(sys.argv) > 1 else "quick"
    seed = int(sys.argv[2]) if len(sys.argv) > 2 else 0
    rep = Report("C09", tier, seed)
    m = _load_h()
    rep.describe(
        explanation=(
            "CrossHair/z3 symbolic execution of the real execute_with_session glue and everything below it "
            "(_group_notes_by, _order_notes_by, _select, selectors, keyfuncs, Note.to_string) over 1-3 notes whose "
            "fields are solver-chosen from finite domains; the rendered text is compared with an independent oracle "
            "(distinct sorted group values, header per dimension unless empty, tuple ordering with none = (path, "
            "integer line), distinct values sorted iff O alpha, count = length of the selection)."),
        functions=["zorg.service.swog._executor.execute_with_session/_get_notes_by_query/_group_notes_by/_order_notes_by/"
                   "_order_by_keyfunc/_select/_get_selector/_select_*/_get_header",
                   "zorg.domain.types.GroupByType.keyfunc/OrderByType.keyfunc/_to_comparable_*",
                   "zorg.domain.models.Note.to_string", "SelectAggregation.aggregate"],
        stubs=["session.repo.get_notes_by_query returns the harness notes (index content = these notes)",
               "build_zorg_query returns the spec's Query object (compilation from text: C04; replay uses the real one)",
               "expand_saved_queries = identity (C15)", "time.time() = 0.0", "module loggers silent"],
        bounds=["%d specs: select form x 0-4 grouping dimensions x 1-4 ordering keys (list in coverage.conditions)" % len(m.SPECS),
                "1-3 notes per spec; each varying field ranges over the finite domain given in the spec "
                "(lines incl. 9/10/99/100 boundaries, 6 kinds, P0-P9, dates in a 4-day window across Feb 28/29/Mar 1, "
                "tags from {none,a,b}, 2 pages, 4 section positions)"],
        outside=["more than 3 notes; tag names longer than one character; ordering when one variable-length key is a "
                 "strict prefix of another (multi-line bodies under O alpha k2): statement silent",
                 "ties between notes with equal keys (any order accepted by the statement; oracle and code are both "
                 "stable over the same upstream order)"])
    kf_active, _ = known_findings("C09")
    kf_ids = {e["id"] for e in kf_active}
    T = 90 if tier == "quick" else 400
    env0 = {"XH_KNOWN": ",".join(sorted(kf_ids))}
    conds = []
    for s in m.SPECS:
        conds.append(xh.Cond(H, "cond", timeout=T, env=dict(env0, XH_SPEC=s["name"]),
                             meta={"variant": s["name"], "family": "spec",
                                   "bound": "domains " + str({k: len(v) for k, v in s["dom"].items()})}))
    if "KF-C09-1" in kf_ids:
        conds.append(xh.Cond(H, "kf_none_text_order", timeout=T, env=dict(env0, XH_SPEC="ord_none_lines"),
                             meta={"variant": "ord_none_lines", "family": "known", "known_finding": "KF-C09-1"}))
    for nm in ("k_file_label", "k_none_key", "k_tag_label"):
        conds.append(xh.Cond(H, nm, timeout=T, env=env0, meta={"family": "kernel",
                                                               "bound": "symbolic strings, see docstring"}))
    for nm in ("ord_none_lines", "grp_area", "sel_prop_values"):
        conds.append(xh.Cond(H, "cond", timeout=30, twin=True, env=dict(env0, XH_SPEC=nm),
                             meta={"variant": nm, "family": "twin"}))
    results = xh.run_all(conds)
    handle_xh(rep, results, replayer)
    for s in m.SPECS[:4]:
        rep.sample({"spec": s["name"], "query": _query_text(m, s), "domains": {k: v for k, v in s["dom"].items()}})
    sys.exit(rep.finish())


if __name__ == "__main__":
    main()
