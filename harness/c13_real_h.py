"""C13 CrossHair harness, family `converge_real`: the crash schedule over the REAL zorg (vlib/crashreal.py).

Nothing is stubbed and nothing in zorg is patched: real SQLSession / SQLRepo / SQLite, real walk_zorg_page (ANTLR), real
ZIDManager, real files in a temporary directory.  The solver chooses the schedule - pre-state pair, command, boundary
between two REAL external effects (Path.write_text / open('w') / replace / unlink, Session.commit), torn or not - from the
table the driver built from the real code's uninterrupted runs ($XH_TABLE); the run is killed there by an exception that
nothing in zorg catches, the same command runs again through messagebus.handle, and the directory is compared with a fresh
`db create` on a copy.  (In-process kill = what a killed process leaves behind: the unit of work rolls back and closes,
committed SQLite state and files stay, every in-memory object of the run is dropped.)
"""
import json
import os

from crosshair.tracers import NoTracing

from harness.c13_common import FILE_STATES, HASH_STATES, INDEX_STATES, NAMES, TEXTS, VALID, mask_new_zids, strip_zids
from vlib import crashreal
from vlib.hx import V

TABLE = json.load(open(os.environ["XH_TABLE"])) if os.environ.get("XH_TABLE") else []     # [[s0, s1, mode, k, torn], ...]
PIN_N = os.environ.get("XH_N", "")
STRIDE = int(os.environ.get("XH_STRIDE", "1"))      # quick tier: every STRIDE-th schedule, offset rotated by the seed
OFFSET = int(os.environ.get("XH_OFFSET", "0"))
TABLES = (FILE_STATES, INDEX_STATES, HASH_STATES)


def _n_ok(n):
    if n % STRIDE != OFFSET % STRIDE:
        return False
    if not PIN_N:
        return True
    lo, hi = PIN_N.split("-")
    return int(lo) <= n < int(hi)


def conc_bits(x, nbits):
    v = 0
    for b in reversed(range(nbits)):
        if x >= v + (1 << b):
            v += 1 << b
    return v


def real_schedule(n):
    s0, s1, mode, k, torn = TABLE[n]
    cmd = "create" if mode == 3 else "reindex"
    rels = [[], [NAMES[0]], [NAMES[1]], []][mode]
    return crashreal.schedule(NAMES, TEXTS, (VALID[s0], VALID[s1]), TABLES, cmd, rels, k, bool(torn), strip_zids, mask_new_zids)


def converge_real(n: int) -> bool:
    """
    pre: 0 <= n < len(TABLE) and _n_ok(n)
    post: _
    """
    n = conc_bits(n, len(TABLE).bit_length())
    with NoTracing():
        return V(real_schedule(n) == "")


def effect_logs(idxs):
    """(driver helper, run in worker processes) effect logs of the uninterrupted real runs of the state triples idxs"""
    out = []
    triples = [(a, b, m) for a in range(len(VALID)) for b in range(len(VALID)) for m in range(4)]
    for a, b, m in [triples[i] for i in idxs]:
        if (m == 1 and VALID[a][0] == 0) or (m == 2 and VALID[b][0] == 0):
            continue
        cmd = "create" if m == 3 else "reindex"
        rels = [[], [NAMES[0]], [NAMES[1]], []][m]
        out.append([a, b, m, crashreal.effect_log(NAMES, TEXTS, (VALID[a], VALID[b]), TABLES, cmd, rels)])
    return out
