"""C11 CrossHair harness: modification dates are stamped on exactly the notes that were edited.

Real code under symbolic execution: zorg.service.handlers._check_for_modified_notes, Note.__eq__,
EVENT_HANDLERS[ModifiedZorgNotesEvent] -> update_note_modify_dates -> _update_zo_file,
_add_or_update_modify_date, _pop_line_before_zid, _write_file_hash_to_disk, _get_file_hash_map;
zorg.shared.dates.to_short_date_spec.  The old and the new page are compiled from the scenario's
file texts with the real lexer/parser/listener (outside tracing: the parse needs concrete text).
Stubs: clock (date.today), in-memory FS, _hash_file = identity on contents (injective), json shim.
"""
import datetime as dt
import os
from pathlib import Path

import antlr4
from crosshair.core import deep_realize
from crosshair.tracers import NoTracing

from vlib import hx
from vlib.hx import V
from harness import c11_common as cm
from zorg.domain.messages import events
from zorg.domain.models import Page
from zorg.grammar.zorg_file.ZorgFileLexer import ZorgFileLexer
from zorg.grammar.zorg_file.ZorgFileParser import ZorgFileParser
from zorg.service import handlers as hd
from zorg.service import messagebus as mb
from zorg.service.compiler import _file_compiler as fc
from zorg.service.compiler._file_compiler import ErrorManager, ZorgFileCompiler

hx.stub_loggers()
hx.patch_clock(hd)
hx.patch_clock(fc)
hx.put(hd, "json", hx.JsonShim)
hx.put(hd, "_hash_file", lambda p, chunk_size=8192: p.read_text())
KNOWN = set(x for x in os.environ.get("XH_KNOWN", "").split(",") if x)
PIN_FORM = int(os.environ.get("XH_FORM", "-1"))


def compile_text(text, path):
    page = Page(path)
    lexer = ZorgFileLexer(antlr4.InputStream(text))
    lexer.removeErrorListeners()
    parser = ZorgFileParser(antlr4.CommonTokenStream(lexer))
    parser.removeErrorListeners()
    em = ErrorManager()
    parser.addErrorListener(em)
    tree = parser.prog()
    antlr4.ParseTreeWalker().walk(ZorgFileCompiler(page, em), tree)
    assert not em.errors, em.errors
    return page


def snap(notes):
    return [dict(zid=n.zid, body=n.body, modify_date=n.modify_date, line_no=n.line_no) for n in notes]


def run(form_i, edit_i, b_edit, new_note, title_edit, today_i):
    today = cm.TODAYS[today_i]
    hx.FixedDate.TODAY = today
    old_lines, new_lines = cm.scenario(form_i, edit_i, b_edit, new_note, title_edit)
    fs = hx.FakeFS({"/z/p.zo": "\n".join(new_lines)})
    zdir = hx.FakePath("/z", fs)
    ppath = hx.FakePath("/z/p.zo", fs)
    with NoTracing():
        old_page = compile_text("\n".join(old_lines), ppath)
        new_page = compile_text("\n".join(new_lines), ppath)
        expected = cm.expected_stamped(old_page.notes, new_page.notes, today)
    # the decision, in the index (in memory)
    hd._check_for_modified_notes(zdir, new_page, old_page)
    evs = list(new_page.events)
    stamped = [n.zid for ev in evs for n in ev.modified_notes]
    ok_events = all(isinstance(ev, events.ModifiedZorgNotesEvent) for ev in evs) and len(evs) <= 1
    # the write-back, through the registered event handler
    for ev in evs:
        for handler in mb.EVENT_HANDLERS[type(ev)]:
            handler(ev, None)
    after_text = fs.files["/z/p.zo"]
    mem = snap(new_page.notes)
    with NoTracing():
        after_text = deep_realize(after_text)
        mem = deep_realize(mem)
        stamped = deep_realize(stamped)
        again = compile_text(after_text, ppath)
        recompiled = snap(again.notes)
    # an immediately following reindex: index state = new_page (after stamping), file = rewritten file
    new_page.events.clear()
    hd._check_for_modified_notes(zdir, again, new_page)
    second = [n.zid for ev in again.events for n in ev.modified_notes]
    return dict(today=today, new_lines=new_lines, after_lines=after_text.split("\n"), stamped=stamped,
                expected=expected, mem=mem, recompiled=recompiled, second_round=second, ok_events=ok_events)


def kf_excluded(form_i, edit_i, today_i):
    if "KF-C11-1" in KNOWN and cm.EDITS[edit_i] == "drop_date_and_word" and cm.OLD_FORMS[form_i][1] is not None:
        return True
    if "KF-C11-2" in KNOWN and form_i == 4:
        return True
    return False


def stamp(form_i: int, edit_i: int, b_edit: bool, new_note: bool, title_edit: bool, today_i: int) -> bool:
    """
    pre: 0 <= form_i < len(cm.OLD_FORMS) and 0 <= edit_i < len(cm.EDITS) and 0 <= today_i < len(cm.TODAYS)
    pre: PIN_FORM < 0 or form_i == PIN_FORM
    post: _
    """
    ob = run(form_i, edit_i, b_edit, new_note, title_edit, today_i)
    excluded = kf_excluded(form_i, edit_i, today_i)      # (evaluated while tracing: the arguments are symbolic)
    with NoTracing():
        ob = deep_realize(ob)
        if excluded:
            return True
        ok, _why = cm.judge(ob)
    return V(ok and ob["ok_events"])


# ------------------------------------------------------------------ kernels with symbolic strings
def k_stamp_line(ind: int, kind_i: int, pd: int, has_date: bool, w: int, more: bool) -> bool:
    """
    pre: 0 <= ind <= 2 and 0 <= kind_i <= 2 and 0 <= pd <= 2 and 0 <= w <= 3
    pre: pd == 0 or kind_i > 0
    post: _
    """
    kind_i = [0, 1, 4][kind_i]
    pd = [-1, 0, 9][pd]
    # first line = indentation, kind, optional priority, optional YYMMDD, ZID, rest: the write-back
    # puts exactly one YYMMDD (today's) in front of the ZID and changes nothing else
    rest = ["", "a", "a1", "1"][w] + (" b  c" if more else "")
    head = " " * ind + "-ox~<>"[kind_i] + " " + ("P%d " % pd if pd >= 0 else "")
    line = head + ("231231 " if has_date else "") + cm.Z1 + " " + rest
    got = hd._add_or_update_modify_date("240106", line)
    return V(got == head + "240106 " + cm.Z1 + " " + rest)


def k_stamp_line_date(old: str) -> bool:
    """
    pre: len(old) == 6 and old.isdigit() and old.isascii()
    post: _
    """
    # any six-digit word in front of the ZID is replaced, whatever its digits
    got = hd._add_or_update_modify_date("240106", "o P1 " + old + " " + cm.Z1 + " x")
    return V(got == "o P1 240106 " + cm.Z1 + " x")


def k_decision(zid_same: bool, body_same: bool, kind_same: bool, pri_same: bool, md: int, today: int, has_zid: bool) -> bool:
    """
    pre: 0 <= md <= 2 and 0 <= today <= 2
    post: _
    """
    # the stamping decision on hand-made notes: iff same ZID in the old page, (body, todo state)
    # differs, and the note is not already dated today
    from zorg.domain.models import Block, H1, Note, TodoPayload
    from zorg.domain.types import NoteType
    days = [dt.date(2024, 1, 4), dt.date(2024, 1, 5), dt.date(2024, 1, 6)]
    hx.FixedDate.TODAY = days[today]
    oldn = Note("240101#01 a", file_path=Path("p.zo"), line_no=3, zid="240101#01", create_date=cm.ZDATE,
                modify_date=cm.ZDATE, todo_payload=TodoPayload("P1", NoteType.OPEN_TODO))
    newn = Note("240101#01 a" if body_same else "240101#01 b", file_path=Path("p.zo"), line_no=3,
                zid=("240101#01" if zid_same else "240101#09") if has_zid else None, create_date=cm.ZDATE,
                modify_date=days[md],
                todo_payload=TodoPayload("P1" if pri_same else "P2",
                                         NoteType.OPEN_TODO if kind_same else NoteType.CLOSED_TODO))
    po, pn = Page(Path("p.zo")), Page(Path("p.zo"))
    po.h0 = H1("", [Block(notes=[oldn])])
    pn.h0 = H1("", [Block(notes=[newn])])
    hd._check_for_modified_notes(Path("/z"), pn, po)
    stamped = bool(pn.events)
    want = has_zid and zid_same and not (body_same and kind_same and pri_same) and md != today
    return V(stamped == want and (not stamped or newn.modify_date == days[today]))
