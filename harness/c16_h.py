"""C16 CrossHair harness: template initialisation never overwrites existing files.

Real code under symbolic execution: zorg.service.templates.init_from_template,
ZorgTemplateManager.render and _build_template_in_dir (header dropped, '## ' -> '# '),
zorg.shared.common.process_var_map / _var_map_value / strip_zdir.
Stubs: in-memory FS behind c.prepend_zdir; the manager's temp dir and jinja2 environment are
replaced by an in-memory environment whose render() returns the prepared template text followed by
the sorted variables (jinja2 itself is trusted library code); real `re` patterns on concrete paths.
"""
import datetime as dt
import os
import re

from vlib import hx
from vlib.hx import V
from zorg.service import templates as tp
from zorg.shared import common as c

hx.stub_loggers()
ZDIR = "/zd"
PIN_PM = int(os.environ.get("XH_PM", "-1"))
FS = [None]
RENDERS = []


def fake_prepend_zdir(zdir, path):
    p = str(path)
    if "." not in p:
        p = p + ".zo"
    if not p.startswith(ZDIR + "/"):
        p = ZDIR + "/" + p
    return hx.FakePath(p, FS[0])


hx.put(c, "prepend_zdir", fake_prepend_zdir)


class _Tmpl:
    def __init__(self, text):
        self.text = text

    def render(self, var_map):
        items = sorted((k, (v.strftime("%Y-%m-%d") if isinstance(v, dt.datetime) else v))
                       for k, v in var_map.items() if k != "dt")
        RENDERS.append(items)
        return self.text + "|" + repr(items)


class _Env:
    def __init__(self, fs):
        self.fs = fs

    def get_template(self, name):
        return _Tmpl(self.fs.files["/tmp_t/" + name])


class FakeManager(tp.ZorgTemplateManager):
    """the real render() and _build_template_in_dir over the in-memory FS"""

    def __init__(self, zdir):
        self._temp_dir_path = hx.FakePath("/tmp_t", FS[0])
        self._template_env = _Env(FS[0])
        self._zdir = hx.FakePath(ZDIR, FS[0])


hx.put(tp, "ZorgTemplateManager", FakeManager)

TEMPLATES = {
    "day.zot": "day template header\n# second header line\n\n## {{ date }} log\n##\n- first {{ parent }}\n",
    "w/log.zot": "work log\n\n## work {{ name }}\n- w\n",
    "h/log.zot": "home log\n\n## home {{ name }}\n- h\n",
    "any.zot": "catch all\n\n- any\n",
    "exp.zot": "explicit\n\n## explicit\n",
}
DATE = r"(?P<date>[0-9]{8})\.zo"
PRJ = r"prj/(?P<name>[a-z]+)\.zo"
HOME = r"home/(?P<name>[a-z]+)\.zo"
PATTERN_MAPS = [
    [],
    [(DATE, "day.zot")],
    [(PRJ, "w/log.zot"), (DATE, "day.zot")],
    [(r".*\.zo", "any.zot"), (PRJ, "w/log.zot")],          # overlapping: the first one wins
    [(PRJ, "w/log.zot"), (HOME, "h/log.zot")],              # two templates with the same base name
]
TARGETS = ["20240131", "20240131.zo", ZDIR + "/20240131.zo", "prj/alpha", "home/beta.zo", "other.zo", "prj/Alpha.zo"]
VAR_MAPS = [None, {"parent": "p"}, {"d": "20231224", "date": "x", "parent": "q"}]


def prepared(text):
    """oracle: a template minus its header (everything up to the first blank line), '## ' / '##' -> '# ' / '#'"""
    lines = text.split("\n")
    k = 0
    while lines[k].strip():
        k += 1
    out = []
    for ln in lines[k + 1:]:
        out.append(ln[1:] if (ln.startswith("## ") or ln.strip() == "##") else ln)
    return "\n".join(out)


def norm(target):
    p = target if "." in target else target + ".zo"
    return p if p.startswith(ZDIR + "/") else ZDIR + "/" + p


def expected(pm_i, target, var_i, explicit):
    rel = norm(target)[len(ZDIR) + 1:]
    vars_ = dict(VAR_MAPS[var_i] or {})
    tmpl = "exp.zot" if explicit else None
    for pat, t in PATTERN_MAPS[pm_i]:
        m = re.match(pat, rel)
        if m:
            tmpl = t
            vars_.update(m.groupdict())
            break
    if tmpl is None:
        return None
    items = []
    for k, v in sorted(vars_.items()):
        if re.match(r"^[0-9]{8}$", v):
            v = "%s-%s-%s" % (v[:4], v[4:6], v[6:])
        items.append((k, v))
    return prepared(TEMPLATES[tmpl]) + "|" + repr(items)


EXISTING = [None, "OLD CONTENT\n", ""]      # missing / has content / exists with zero bytes


def fresh_fs(target, exists):
    fs = hx.FakeFS({ZDIR + "/" + k: v for k, v in TEMPLATES.items()})
    if EXISTING[exists] is not None:
        fs.files[norm(target)] = EXISTING[exists]
    FS[0] = fs
    del RENDERS[:]
    return fs


def call(pm_i, target, var_i, explicit, overwrite):
    tpm = {re.compile(p): hx.FakePath(t, FS[0]) for p, t in PATTERN_MAPS[pm_i]}
    kw = {}
    if VAR_MAPS[var_i] is not None:
        kw["var_map"] = dict(VAR_MAPS[var_i])
    if explicit:
        kw["template"] = hx.FakePath("exp.zot", FS[0])
    if overwrite:
        kw["should_overwrite_existing"] = True
    tp.init_from_template(ZDIR, tpm, target, **kw)


def pick3(i):
    for k in (0, 1, 2):
        if i == k:
            return k
    raise AssertionError(i)


def user_files(fs):
    return {k: v for k, v in fs.files.items() if k.startswith(ZDIR + "/") and not k.endswith(".zot")}


def init(pm_i: int, t_i: int, var_i: int, exists: int, explicit: bool, overwrite: bool) -> bool:
    """
    pre: 0 <= pm_i < len(PATTERN_MAPS) and 0 <= t_i < len(TARGETS) and 0 <= var_i < len(VAR_MAPS) and 0 <= exists <= 2
    pre: PIN_PM < 0 or pm_i == PIN_PM
    post: _
    """
    target = TARGETS[t_i]
    exists = pick3(exists)
    fs = fresh_fs(target, exists)
    before = user_files(fs)
    call(pm_i, target, var_i, explicit, overwrite)
    after = user_files(fs)
    want = expected(pm_i, target, var_i, explicit)
    if exists and not overwrite:
        ok = after == before and not RENDERS          # byte-identical, nothing rendered
    elif want is None:
        ok = after == before                          # no pattern, no template: nothing written
    else:
        exp = dict(before)
        exp[norm(target)] = want
        ok = after == exp
    if not ok:
        return V(False)
    # doing it twice equals doing it once
    call(pm_i, target, var_i, explicit, overwrite)
    return V(user_files(fs) == after)


def two_targets(first: int, second: int, exists2: bool) -> bool:
    """
    pre: 0 <= first < len(TARGETS) and 0 <= second < len(TARGETS) and first != second
    post: _
    """
    # two initialisations in one process (`zorg edit a b`, link opening after an edit): the second page gets
    # ITS pattern's template, also when both templates share a base name (prj/.. -> w/log.zot, home/.. -> h/log.zot)
    t1, t2 = TARGETS[first], TARGETS[second]
    if norm(t1) == norm(t2):
        return True
    fs = fresh_fs(t2, 1 if exists2 else 0)
    before = user_files(fs)
    call(4, t1, 0, False, False)
    call(4, t2, 0, False, False)
    exp = dict(before)
    for t in (t1, t2):
        w = expected(4, t, 0, False)
        if w is not None and not (t == t2 and exists2):
            exp[norm(t)] = w
    return V(user_files(fs) == exp)


hx.install_strptime_model()


def k_var_value(c1: str, mi: int, di: int) -> bool:
    """
    pre: len(c1) == 1 and c1 in "0123456789"
    pre: 0 <= mi < 4 and 0 <= di < 4
    post: _
    """
    y = "20" + c1 + "4"
    # date-like captures (YYYYMMDD of a calendar date) become datetimes of that day; others stay text
    mm, dd = ["01", "02", "10", "12"][mi], ["01", "09", "10", "28"][di]
    v = y + mm + dd
    got = c.process_var_map({"k": v, "j": v + "x", "i": v[:7]})
    val = got["k"]
    return V(isinstance(val, dt.datetime) and val.month == int(mm) and val.day == int(dd)
             and val.year == int(y) and got["j"] == v + "x" and got["i"] == v[:7])
