"""Runtime of the generated C12 harness module: a note's text form compiles back to the same note.

Real code under symbolic execution: everything of c01_rt.py (twice: the original page and the page made
of the emitted text), Note.to_string, zorg.service.swog._executor._select_note / _order_notes_by.
For every skeleton S (one- to three-item pages of the C01 sets) with hole values sigma:
  n  = compile(S, sigma);  t = n.to_string()   (a symbolic string)
  S' = the canonical page '# h' + blank + the items in emitted form (computed from the abstract page)
  assert  t == render(S', sigma)  as strings, then n' = compile(S', sigma) and n' ~ n.
The parse of S' is concrete (same token-class argument as for S).
"""
import os
from pathlib import Path

from crosshair.tracers import NoTracing

from vlib import hx, skel
from vlib.hx import V  # noqa: F401
from harness import c01_common as cm
from harness.c01_rt import compile_spec as compile_orig, SPECS as ALL_SPECS, TIER, SEED, N  # noqa: F401
from zorg.domain.models import Page
from zorg.domain.types import OrderByType
from zorg.grammar.zorg_file.ZorgFileLexer import ZorgFileLexer
from zorg.grammar.zorg_file.ZorgFileParser import ZorgFileParser
from zorg.service.compiler._file_compiler import ErrorManager, ZorgFileCompiler
from zorg.service.swog import _executor as ex

KNOWN = set(x for x in os.environ.get("XH_KNOWN", "").split(",") if x)
IDX = [i for i, s in enumerate(ALL_SPECS) if s.name.startswith(("core-", "layout-", "multi-", "first-", "second-"))]
SPECS = [ALL_SPECS[i] for i in IDX]
ORDERS = [(OrderByType.NONE,), (OrderByType.ALPHA,), (OrderByType.NOTE_TYPE, OrderByType.PRIORITY),
          (OrderByType.CREATE_DATE,), (OrderByType.MODIFY_DATE, OrderByType.ALPHA)]


def canonical_item(item, form=0):
    """the item as zorg may emit it: kind, one space, the body, and
       form 0: the priority spelled out for todos that are not done/cancelled (default P3 included)
       form 1: no priority at all
       form 2: the priority spelled out for every todo
    Which form the code uses is not prescribed by the statement; the emitted text must equal ONE of them (so that the
    concrete parse of that form is the parse of the emitted text) and must compile back to the same note."""
    pri = None
    if item.kind != "-" and (form == 2 or (form == 0 and item.kind in ("o", "<", ">"))):
        pri = item.pri if item.pri is not None else "P3"
    return cm.Item(item.kind, pri=pri, layout=item.layout, lay=item.lay, words=item.words, cont=item.cont)


_CANON = {}


def canon(k, order, forms=None):
    """(spec', parsed') for the emitted page of spec k with its items in the given order / emitted forms"""
    forms = tuple(forms) if forms is not None else (0,) * len(order)
    key = (k, tuple(order), forms)
    if key not in _CANON:
        with NoTracing():
            items = [it for it, _ln in SPECS[k].items()]
            lines = [("title", "h"), ("blank", None)] + [("item", canonical_item(items[j], f)) for j, f in zip(order, forms)]
            spec2 = cm.PageSpec(SPECS[k].name + "-emitted", lines)
            text, holes = skel.assemble(spec2.parts())
            # a hole may occur once only per page; the emitted page has the same holes as the original
            ps = skel.Parsed(text, holes, ZorgFileLexer, ZorgFileParser, "prog")
            if ps.parse_errors.errors or ps.lex_errors.errors:
                raise AssertionError("emitted page of %s does not parse: %r\n%s" % (SPECS[k].name, ps.parse_errors.errors[:2], text))
            _CANON[key] = (spec2, ps)
    return _CANON[key]


def compile_parsed(ps, values):
    ps.set_texts(values)
    page = Page(Path("/z/q.zo"))
    try:
        ps.walk(ZorgFileCompiler(page, ErrorManager()))
    finally:
        ps.reset()
    return page


def same_note(a, b, item):
    """kind, ZID, body, own tags / links / properties, dates when a ZID is present, priority unless done/cancelled"""
    va, vb = cm.note_view(a), cm.note_view(b)
    if va["kind"] != vb["kind"] or va["zid"] != vb["zid"] or va["body"] != vb["body"]:
        return False
    if va["zid"] is not None and (va["create"] != vb["create"] or va["modify"] != vb["modify"]):
        return False
    if item.kind not in ("x", "~") and va["priority"] != vb["priority"]:
        return False
    for attr in ("areas", "contexts", "people", "projects", "links"):
        if sorted(getattr(a, attr)) != sorted(getattr(b, attr)):
            return False
    return dict(a.properties) == dict(b.properties)


def kf_c12_1(item):
    """predicate of KF-C12-1: a done / cancelled todo written WITH a priority, no date or ZID in front of the body,
    whose first body word looks like a priority (Pn)"""
    w = item.words[0] if item.words else ""
    return (item.kind in ("x", "~") and item.pri is not None and item.layout == "plain" and isinstance(w, str)
            and len(w) == 2 and w[0] == "P" and w[1] in "0123456789")


def check_c12(k, values):
    """single notes: every note of the page, emitted on its own"""
    page = compile_orig(IDX[k], values)
    notes = page.notes
    items = [it for it, _ln in SPECS[k].items()]
    if len(notes) != len(items):
        return False
    for j, (n, item) in enumerate(zip(notes, items)):
        if "KF-C12-1" in KNOWN and kf_c12_1(item):
            continue        # listed known finding, re-found by the complementary condition kf_1
        text = n.to_string()
        ps = None
        for form in (0, 1, 2):
            spec2, cand = canon(k, (j,), (form,))
            if "# h\n\n" + text == "".join(cm.val(p, values) for p in spec2.parts()):
                ps = cand
                break
        if ps is None:
            return False        # emitted in none of the known forms: left to the replay to judge
        page2 = compile_parsed(ps, values)
        if page2.has_errors or len(page2.notes) != 1 or not same_note(n, page2.notes[0], item):
            return False
    return True


def check_selection(k, values, order_i):
    """an ungrouped rendered selection of all notes of the page, under an ordering, placed under a page header,
    is a valid page whose notes are exactly the selected notes"""
    page = compile_orig(IDX[k], values)
    notes = list(page.notes)
    ordered = ex._order_notes_by(notes, ORDERS[order_i])
    rendered = "\n".join(ex._select_note(ordered))
    perm = tuple(notes.index(n) for n in ordered) if all(any(n is m for m in notes) for n in ordered) else None
    perm = tuple([i for n in ordered for i, m in enumerate(notes) if m is n])
    if sorted(perm) != list(range(len(notes))):
        return False
    items = [it for it, _ln in SPECS[k].items()]
    # which form each note is emitted in (decided note by note on its own text)
    forms = []
    for n, i in zip(ordered, perm):
        t = n.to_string()
        for form in (0, 1, 2):
            one = cm.PageSpec("x", [("item", canonical_item(items[i], form))])
            if t == "".join(cm.val(p, values) for p in one.parts()):
                forms.append(form)
                break
        else:
            return False
    spec2, ps = canon(k, perm, forms)
    want = "".join(cm.val(p, values) for p in spec2.parts())
    if "# h\n\n" + rendered + "\n" != want:
        return False
    page2 = compile_parsed(ps, values)
    if page2.has_errors or len(page2.notes) != len(notes):
        return False
    return all(same_note(n, m, items[i]) for n, m, i in zip(ordered, page2.notes, perm))
