"""C06 — Incremental reindexing is equivalent to rebuilding the index.   (DESIGN.md §5)

CrossHair conditions (harness/c06_h.py): ONE inductive step of the real reindex_database (+ the
write-back events that follow it) from every pair of per-page states satisfying the invariants
I (hash entry H(T) => index holds the notes of T, whatever the file holds now) and I2 (indexed => has a hash entry),
for a plain run and for explicit-path runs; plus a short real history (two_steps).
Replay: real directory put into the witness state (db create + edits + hash file), real
`db reindex`, compared with a fresh `db create` on a copy of the final files.
"""
import os as _os
_os.environ["XH_NO_PATCH"] = "1"   # this process replays on the real code: never patch zorg here

import hashlib
import importlib.util
import json
import os
import shutil
import sys

from vlib import xh, zreal
from vlib.driver import Report, handle_xh, known_findings

HDIR = os.path.dirname(os.path.abspath(__file__))
H = os.path.join(HDIR, "c06_h.py")
HR = os.path.join(HDIR, "c06_real_h.py")
NAMES = ["a.zo", "s/b.zo"]
V1 = "# t\n\n- 240101#01 one\n"
V2 = "# t\n\n- 240101#01 two\n"
VN = "# t\n\n- fresh\n"
VNZ = "# t\n\n- 240510#00 fresh\n"
FILE_STATES = [None, V1, V2, VN]
INDEX_STATES = [None, V1, V2, VNZ]
HASH_STATES = [None, V1, V2, VN, VNZ]
FREEZE = "2024-05-10 10:00:00"


def sha(text):
    return hashlib.sha256(text.encode()).hexdigest()


def _valid():
    os.environ.setdefault("XH_KNOWN", "")
    spec = importlib.util.spec_from_file_location("c06_h_tbl", H)
    m = importlib.util.module_from_spec(spec)
    spec.loader.exec_module(m)
    return list(m.VALID)


def _strip(views):
    return [{k: v for k, v in x.items()} for x in views]


def _fresh_views(z):
    """index of a fresh `db create` on a copy of the current files"""
    with zreal.TempZdir("c06f") as z2:
        for p in z.rglob("*.zo"):
            rel = p.relative_to(z)
            (z2 / rel).parent.mkdir(parents=True, exist_ok=True)
            (z2 / rel).write_text(p.read_text())
        zreal.create_db(z2)
        return zreal.db_note_views(z2), {str(p.relative_to(z2)): p.read_text() for p in z2.rglob("*.zo")}


def _put_state(z, fstates, istates, hstates):
    # index state: create the index from the INDEX texts ...
    for name, i in zip(NAMES, istates):
        if INDEX_STATES[i] is not None:
            (z / name).parent.mkdir(parents=True, exist_ok=True)
            (z / name).write_text(INDEX_STATES[i])
    zreal.create_db(z)
    # ... then put the files and the hash map into the witness state
    for name, f in zip(NAMES, fstates):
        p = z / name
        if FILE_STATES[f] is None:
            if p.exists():
                p.unlink()
        else:
            p.parent.mkdir(parents=True, exist_ok=True)
            p.write_text(FILE_STATES[f])
    hm = {name: sha(HASH_STATES[h]) for name, h in zip(NAMES, hstates) if HASH_STATES[h] is not None}
    (z / ".zorg" / "file_hash.json").write_text(json.dumps(hm))
    (z / ".zorg" / "next_ids.json").write_text("{}")


def _judge_after(z, mode):
    idx = zreal.db_note_views(z)
    files = {str(p.relative_to(z)): p.read_text() for p in z.rglob("*.zo")}
    hm = json.loads((z / ".zorg" / "file_hash.json").read_text())
    fresh, fresh_files = _fresh_views(z)
    if mode == 0:
        if idx != fresh:
            return False, "index after a plain reindex %r differs from a freshly created one %r" % (
                [(v["page"], v["body"]) for v in idx], [(v["page"], v["body"]) for v in fresh])
        if hm != {n: sha(t) for n, t in files.items()}:
            return False, "hash map %r does not describe the files %r" % (sorted(hm), sorted(files))
        return True, ""
    p = NAMES[mode - 1]
    if [v for v in idx if v["page"] == p] != [v for v in fresh if v["page"] == p]:
        return False, "page %s in the index differs from a fresh index" % p
    # invariants
    for name, h in hm.items():
        if name in files and h == sha(files[name]):
            if [v for v in idx if v["page"] == name] != [v for v in fresh if v["page"] == name]:
                return False, "hash entry of %s matches its file but the index holds other notes (edit would be missed)" % name
    for v in idx:
        if v["page"] not in hm:
            return False, "page %s is indexed but has no hash-map entry" % v["page"]
    # a stale entry H(T) (T != the file) is a missed edit waiting to happen: SHOW it - put every such T back and run a
    # plain reindex
    stale = []
    for name, h in sorted(hm.items()):
        for t in (V1, V2, VNZ):
            if h == sha(t) and files.get(name) != t:
                (z / name).parent.mkdir(parents=True, exist_ok=True)
                (z / name).write_text(t)
                stale.append((name, t))
    if stale:
        zreal.reindex(z, [])
        idx2 = zreal.db_note_views(z)
        fresh2, _ = _fresh_views(z)
        if idx2 != fresh2:
            return False, ("after the run the hash map still holds the entries of %r; writing those texts back and running a "
                           "plain `db reindex` leaves the index at %r, a fresh one has %r (edit missed)" % (
                               stale, [(v["page"], v["body"]) for v in idx2], [(v["page"], v["body"]) for v in fresh2]))
    return True, ""


def replayer(name, args, kwargs, meta):
    if name == "history_real":
        # the condition already ran the unpatched code; run the same history once more in this process and report it
        spec = importlib.util.spec_from_file_location("c06_real_tbl", HR)
        mr = importlib.util.module_from_spec(spec)
        spec.loader.exec_module(mr)
        a, b, mode, e = mr.ADM[args[0]]
        why = mr.history(args[0])
        desc = "pages in states %r / %r (file, index, hash entry); `db reindex%s`; then page a.zo %s; then `db reindex`" % (
            mr.VALID[a], mr.VALID[b], "".join(" " + r for r in mr.MODE_RELS[mode]),
            "untouched" if e < 0 else ("deleted" if not mr.FILE_STATES[e] else "becomes %r" % mr.TEXTS[0][mr.FILE_STATES[e]]))
        return bool(why), {"summary": desc + ": " + (why or "index == fresh index"), "why": why}
    from freezegun import freeze_time
    valid = _valid()
    with zreal.TempZdir("c06r") as z, freeze_time(FREEZE):
        if name == "step":
            s0, s1, mode = args
            (f0, i0, h0), (f1, i1, h1) = valid[s0], valid[s1]
            if (mode == 1 and FILE_STATES[f0] is None) or (mode == 2 and FILE_STATES[f1] is None):
                return False, {"summary": "explicit path of a page that does not exist: not a run the harness makes"}
            _put_state(z, (f0, f1), (i0, i1), (h0, h1))
            desc = "state files=%r index=%r hashes=%r, then %s" % (
                [FILE_STATES[f0], FILE_STATES[f1]], [INDEX_STATES[i0], INDEX_STATES[i1]],
                [HASH_STATES[h0], HASH_STATES[h1]], ["db reindex", "db reindex a.zo", "db reindex s/b.zo"][mode])
            zreal.reindex(z, [] if mode == 0 else [z / NAMES[mode - 1]])
            ok, why = _judge_after(z, mode)
        elif name == "kf_deleted_page":
            i0, h0, f1, i1, h1 = args
            _put_state(z, (0, f1), (i0, i1), (h0, h1))
            desc = "page a.zo indexed (%r) but deleted from disk, then db reindex" % INDEX_STATES[i0]
            zreal.reindex(z, [])
            ok, why = _judge_after(z, 0)
        elif name == "two_steps":
            f0, f1, e0, e1, mode = args
            for nm, f in zip(NAMES, (f0, f1)):
                (z / nm).parent.mkdir(parents=True, exist_ok=True)
                (z / nm).write_text(FILE_STATES[f])
            zreal.create_db(z)
            for nm, e in zip(NAMES, (e0, e1)):
                p = z / nm
                if FILE_STATES[e] is None:
                    p.unlink()
                elif e != 3 or not p.read_text().endswith("fresh\n"):
                    p.write_text(FILE_STATES[e])
            tgt = z / NAMES[mode - 1]
            if tgt.exists():
                zreal.reindex(z, [tgt])
            zreal.reindex(z, [])
            desc = "create(%r,%r); edit to (%r,%r); db reindex %s; db reindex" % (
                FILE_STATES[f0], FILE_STATES[f1], FILE_STATES[e0], FILE_STATES[e1], NAMES[mode - 1])
            ok, why = _judge_after(z, 0)
        else:
            return False, {"summary": "no replayer for " + name}
    return (not ok), {"summary": desc + ": " + why, "why": why}


def main():
    tier = sys.argv[1] if len(sys.argv) > 1 else "quick"
    seed = int(sys.argv[2]) if len(sys.argv) > 2 else 0
    rep = Report("C06", tier, seed)
    valid = _valid()
    rep.describe(
        explanation=(
            "CrossHair/z3 symbolic execution of the real reindex_database (entered through COMMAND_HANDLERS) and of the "
            "write-back that follows it (real _add_zids, NewZorgNotesEvent handler, _update_zo_file incl. its hash refresh) "
            "as ONE inductive step: the pre-state (files, index, hash map of two pages) ranges over every pair of per-page "
            "states satisfying the invariants I and I2; asserted afterwards: I and I2 again, no page added twice, and for a "
            "plain run index == files and hash map == hashes of the files. Histories of any length and any interleaving of "
            "edits / explicit-path runs / plain runs follow by induction (I and I2 do not mention the files, so edits "
            "preserve them); a short real history is checked in addition (two_steps)."),
        functions=["zorg.service.handlers.reindex_database/_get_file_hash_map/_get_zo_paths_to_index/_get_file_hash_path/"
                   "_get_error_file_whitelist/_write_file_hash_to_disk/_update_zo_file/add_zids_to_notes_in_file",
                   "zorg.storage.sql._repo._add_zids", "zorg.shared.common.strip_zdir"],
        stubs=["recording repo: index = page name -> note bodies; add_file runs the real _add_zids; remove_file_by_name "
               "deletes the entry (SQL deletions, PageConverter, tag caches NOT claimed)",
               "walk_zorg_page = reader of three-line pages (one body per '- ' line); _check_for_modified_notes = no-op (C11)",
               "in-memory FS, json shim, _hash_file = identity (injective), console output silent, clock fixed"],
        bounds=["2 pages (one in a sub-directory); per page: file in {absent, v1, v2, page with a ZID-less note}, index in "
                "{absent, v1, v2, that page with its ZID}, hash entry in {absent, hash of any of the 4 texts}: %d per-page "
                "states satisfy the invariants, all %d pairs x 3 run modes explored" % (len(valid), len(valid) ** 2)],
        outside=["model family: the SQL-level content of a page entry (covered by the real-history family for the histories it "
                 "runs: state pair -> reindex in any mode -> edit of page a -> plain reindex, compared with a fresh db create); "
                 "more than 2 pages; concurrent edits during a run",
                 "whitelisted broken pages (C08)"])
    kf_active, _ = known_findings("C06")
    kf_ids = {e["id"] for e in kf_active}
    T = 200 if tier == "quick" else 600
    env0 = {"XH_KNOWN": ",".join(sorted(kf_ids))}
    conds = []
    chunk = 2
    for lo in range(0, len(valid), chunk):
        hi = min(len(valid), lo + chunk)
        conds.append(xh.Cond(H, "step", timeout=T, env=dict(env0, XH_S0="%d-%d" % (lo, hi)),
                             cc={"ranges": [[0, len(valid)], [0, len(valid)], [0, 3]], "max": 400},
                             meta={"variant": "s0[%d,%d)" % (lo, hi), "family": "step",
                                   "bound": "first page in states %r" % (valid[lo:hi],)}))
    conds.append(xh.Cond(H, "two_steps", timeout=T, env=env0, meta={"family": "history"},
                         cc={"ranges": [[1, 4], [1, 4], [0, 4], [0, 4], [1, 3]], "max": 300}))
    if "KF-C06-1" in kf_ids:
        conds.append(xh.Cond(H, "kf_deleted_page", timeout=T, env=env0, meta={"family": "known", "known_finding": "KF-C06-1"}))
    # family history_real: short histories over the unpatched zorg (real SQLite / SQLRepo / compiler) in a temp directory
    n_hist = xh.eval_in_harness(HR, "len(ADM)")
    stride = 64 if tier == "quick" else 4
    hstep = (n_hist + 15) // 16
    for lo in range(0, n_hist, hstep):
        hi = min(n_hist, lo + hstep)
        conds.append(xh.Cond(HR, "history_real", timeout=900 if tier == "quick" else 2400, path_timeout=120, cc=False,
                             env={"XH_N": "%d-%d" % (lo, hi), "XH_STRIDE": stride, "XH_OFFSET": seed},
                             meta={"variant": "n[%d:%d]" % (lo, hi), "family": "history_real",
                                   "bound": "real histories %d..%d of %d%s" % (lo, hi - 1, n_hist, "" if stride == 1 else
                                                                               ", every %dth (rotated by the seed)" % stride)}))
    conds.append(xh.Cond(HR, "history_real", timeout=120, twin=True, env={"XH_N": "0-4"}, meta={"variant": "n[0:4]", "family": "twin"}))
    conds.append(xh.Cond(H, "step", timeout=30, twin=True, env=dict(env0, XH_S0="8-12"), meta={"variant": "s0[8,12)", "family": "twin"}))
    results = xh.run_all(conds)
    handle_xh(rep, results, replayer)
    rep.sample({"pre_state": {"files": [V2, None], "index": [V1, V1], "hashes": [V1, V1]}, "run": "db reindex"})
    sys.exit(rep.finish())


if __name__ == "__main__":
    main()
