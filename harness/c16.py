"""C16 — Template initialisation never overwrites existing files.   (DESIGN.md §6)

CrossHair conditions (harness/c16_h.py) over the real init_from_template / ZorgTemplateManager.render /
_build_template_in_dir / process_var_map with an in-memory FS and an in-memory template environment.
Replay: the real function with real files, real jinja2, real patterns, from a working directory that
is NOT the zettel dir.
"""
import os as _os
_os.environ["XH_NO_PATCH"] = "1"   # this process replays on the real code: never patch zorg here

import importlib
import importlib.util
import os
import re
import sys

from vlib import xh, zreal
from vlib.driver import Report, handle_xh

HDIR = os.path.dirname(os.path.abspath(__file__))
H = os.path.join(HDIR, "c16_h.py")


def _load():
    spec = importlib.util.spec_from_file_location("c16_h_tbl", H)
    m = importlib.util.module_from_spec(spec)
    # only the tables and the oracle are used; importing the module patches zorg.service.templates,
    # so the replay reloads the real modules afterwards
    spec.loader.exec_module(m)
    return m


def _real_modules():
    c = importlib.reload(importlib.import_module("zorg.shared.common"))
    tp = importlib.reload(importlib.import_module("zorg.service.templates"))
    return c, tp


def _jinja_expected(m, tmpl_name, items):
    """what real jinja2 makes of the prepared template with these variables (jinja2 is trusted)"""
    import datetime as dt
    import jinja2
    vars_ = {}
    for k, v in items:
        vars_[k] = dt.datetime.strptime(v, "%Y-%m-%d") if re.match(r"^\d{4}-\d{2}-\d{2}$", v) else v
    return jinja2.Environment().from_string(m.prepared(m.TEMPLATES[tmpl_name])).render(dict(vars_, dt=dt))


def _expected_real(m, pm_i, target, var_i, explicit, zdir):
    rel = m.norm(target)[len(m.ZDIR) + 1:]
    vars_ = dict(m.VAR_MAPS[var_i] or {})
    tmpl = "exp.zot" if explicit else None
    for pat, t in m.PATTERN_MAPS[pm_i]:
        mm = re.match(pat, rel)
        if mm:
            tmpl = t
            vars_.update(mm.groupdict())
            break
    if tmpl is None:
        return rel, None
    items = []
    for k, v in sorted(vars_.items()):
        if re.match(r"^[0-9]{8}$", v):
            v = "%s-%s-%s" % (v[:4], v[4:6], v[6:])
        items.append((k, v))
    return rel, _jinja_expected(m, tmpl, items)


def _run_real(m, z, pm_i, target, var_i, explicit, overwrite, tp):
    from pathlib import Path
    tpm = {re.compile(p): Path(t) for p, t in m.PATTERN_MAPS[pm_i]}
    kw = {}
    if m.VAR_MAPS[var_i] is not None:
        kw["var_map"] = dict(m.VAR_MAPS[var_i])
    if explicit:
        kw["template"] = Path("exp.zot")
    if overwrite:
        kw["should_overwrite_existing"] = True
    t = target.replace(m.ZDIR + "/", str(z) + "/") if target.startswith(m.ZDIR + "/") else target
    tp.init_from_template(z, tpm, t, **kw)


def _user_files(z):
    return {str(p.relative_to(z)): p.read_text() for p in z.rglob("*") if p.is_file() and p.suffix != ".zot"}


def replayer(name, args, kwargs, meta):
    m = _load()
    c, tp = _real_modules()
    old_cwd = os.getcwd()
    with zreal.TempZdir("c16r") as z, zreal.TempZdir("c16cwd") as cwd:
        os.chdir(cwd)                       # relative targets must resolve against the zettel dir, not the cwd
        try:
            for k, v in m.TEMPLATES.items():
                (z / k).parent.mkdir(parents=True, exist_ok=True)
                (z / k).write_text(v)
            if name == "init":
                pm_i, t_i, var_i, exists, explicit, overwrite = args
                target = m.TARGETS[t_i]
                rel, want = _expected_real(m, pm_i, target, var_i, explicit, z)
                if exists:
                    (z / rel).parent.mkdir(parents=True, exist_ok=True)
                    (z / rel).write_text(m.EXISTING[exists])
                before = _user_files(z)
                _run_real(m, z, pm_i, target, var_i, explicit, overwrite, tp)
                after = _user_files(z)
                if exists and not overwrite:
                    exp = before
                elif want is None:
                    exp = before
                else:
                    exp = dict(before)
                    exp[rel] = want
                bad = after != exp
                if not bad:
                    _run_real(m, z, pm_i, target, var_i, explicit, overwrite, tp)
                    bad = _user_files(z) != after
                desc = "init_from_template(patterns %r, target %r, vars %r, explicit template %s, overwrite %s) with the target %s" % (
                    m.PATTERN_MAPS[pm_i], target, m.VAR_MAPS[var_i], explicit, overwrite, ["missing", "existing", "existing but empty"][exists])
                return bad, {"summary": desc + ": files afterwards %r, expected %r" % (after, exp)}
            if name == "two_targets":
                first, second, exists2 = args
                t1, t2 = m.TARGETS[first], m.TARGETS[second]
                if m.norm(t1) == m.norm(t2):
                    return False, {"summary": "same page"}
                rel2, _ = _expected_real(m, 4, t2, 0, False, z)
                if exists2:
                    (z / rel2).parent.mkdir(parents=True, exist_ok=True)
                    (z / rel2).write_text("OLD CONTENT\n")
                exp = _user_files(z)
                _run_real(m, z, 4, t1, 0, False, False, tp)
                _run_real(m, z, 4, t2, 0, False, False, tp)
                for t in (t1, t2):
                    rel, w = _expected_real(m, 4, t, 0, False, z)
                    if w is not None and not (t == t2 and exists2):
                        exp[rel] = w
                after = _user_files(z)
                return after != exp, {"summary": "init %r then %r in one process: files %r, expected %r" % (t1, t2, after, exp)}
            if name == "k_var_value":
                import datetime as dt
                c1, mi, di = args
                mm, dd = ["01", "02", "10", "12"][mi], ["01", "09", "10", "28"][di]
                v = "20" + c1 + "4" + mm + dd
                got = c.process_var_map({"k": v, "j": v + "x", "i": v[:7]})
                ok = got["k"] == dt.datetime(int(v[:4]), int(mm), int(dd)) and got["j"] == v + "x" and got["i"] == v[:7]
                return (not ok), {"summary": "process_var_map(%r) = %r" % (v, got)}
        finally:
            os.chdir(old_cwd)
    return False, {"summary": "no replayer for " + name}


def main():
    tier = sys.argv[1] if len(sys.argv) > 1 else "quick"
    seed = int(sys.argv[2]) if len(sys.argv) > 2 else 0
    rep = Report("C16", tier, seed)
    m = _load()
    rep.describe(
        explanation=(
            "CrossHair/z3 symbolic execution of the real init_from_template, ZorgTemplateManager.render / "
            "_build_template_in_dir and process_var_map over an in-memory directory: pattern map x target spelling "
            "(relative, with/without extension, absolute, sub-directory, non-matching) x variable map x existing? x "
            "explicit template? x overwrite?; oracle: existing and no overwrite => byte-identical and nothing rendered; "
            "otherwise exactly the rendering of the FIRST matching pattern's prepared template with variables + captures "
            "(8-digit calendar dates as datetimes); no pattern and no template => nothing written; twice == once; two "
            "initialisations in one process each get their own template."),
        functions=["zorg.service.templates.init_from_template", "ZorgTemplateManager.render/_build_template_in_dir",
                   "zorg.shared.common.process_var_map/_var_map_value/strip_zdir"],
        stubs=["c.prepend_zdir over an in-memory FS", "the manager's temp dir and jinja2 environment: in-memory environment whose "
               "render() returns prepared text + sorted variables (jinja2 trusted; real jinja2 in replay)",
               "strptime model for %Y%m%d (validated in replay)"],
        bounds=["%d pattern maps (none, single, two, overlapping, same-basename templates) x %d targets x %d variable maps x {missing, existing, existing and empty} x 2^2 flags" % (
            len(m.PATTERN_MAPS), len(m.TARGETS), len(m.VAR_MAPS)),
            "date kernel: years 20c4 with one symbolic digit, months {01,02,10,12}, days {01,09,10,28}"],
        outside=["8-digit captures that match the regex but are not calendar dates (strptime raises)",
                 "callers' wiring (edit, action open, note move, template init): they call this function; C17/C10 stub it"])
    T = 120 if tier == "quick" else 400
    conds = []
    for i in range(len(m.PATTERN_MAPS)):
        conds.append(xh.Cond(H, "init", timeout=T, env={"XH_PM": i},
                             meta={"variant": "patterns%d" % i, "family": "init", "bound": "pattern map %r" % (m.PATTERN_MAPS[i],)}))
    conds.append(xh.Cond(H, "two_targets", timeout=T, meta={"family": "sequence"}))
    conds.append(xh.Cond(H, "k_var_value", timeout=T, meta={"family": "kernel"}))
    conds.append(xh.Cond(H, "init", timeout=30, twin=True, env={"XH_PM": 2}, meta={"variant": "patterns2", "family": "twin"}))
    results = xh.run_all(conds)
    handle_xh(rep, results, replayer)
    rep.sample({"patterns": m.PATTERN_MAPS[3], "target": "prj/alpha", "exists": True, "overwrite": False})
    sys.exit(rep.finish())


if __name__ == "__main__":
    main()
