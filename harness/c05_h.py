"""C05 CrossHair harness: after `db create` index and files agree; files change only to gain ZIDs.

Real code under symbolic execution: SQLRepo.add_file -> _add_zids (ZIDManager.get_next,
_get_next_id), the registered NewZorgNotesEvent handler add_zids_to_notes_in_file -> _update_zo_file,
_add_zid_to_line, _pop_line_before_zid, _get_file_hash_map, _write_file_hash_to_disk; is_long_date_spec.
The page is compiled from the scenario text with the real lexer/parser/listener outside tracing.
Stubs: in-memory FS, json shim, _hash_file = identity, clock, the SQL session and PageConverter
(the ORM / SQLite round trip is NOT claimed; it is exercised in the replay).
"""
import os

import antlr4
from crosshair.core import deep_realize
from crosshair.tracers import NoTracing

from vlib import hx
from vlib.hx import V
from harness import c05_common as cm
from zorg.domain.messages import events
from zorg.domain.models import Page
from zorg.grammar.zorg_file.ZorgFileLexer import ZorgFileLexer
from zorg.grammar.zorg_file.ZorgFileParser import ZorgFileParser
from zorg.service import handlers as hd
from zorg.service import messagebus as mb
from zorg.service.compiler import _file_compiler as fc
from zorg.service.compiler._file_compiler import ErrorManager, ZorgFileCompiler
from zorg.storage.sql import _repo as rp
from zorg.storage.sql import _zid_manager as zm

hx.stub_loggers()
hx.patch_clock(hd)
hx.patch_clock(fc)
hx.FixedDate.TODAY = cm.TODAY
hx.put(hd, "json", hx.JsonShim)
hx.put(zm, "json", hx.JsonShim)
hx.put(hd, "_hash_file", lambda p, chunk_size=8192: p.read_text())
KNOWN = set(x for x in os.environ.get("XH_KNOWN", "").split(",") if x)
PIN = int(os.environ.get("XH_STRUCT", "-1"))
PIN_IDS = int(os.environ.get("XH_IDS", "-1"))
# second item: quick = none / plain / dated / irregular spacing / both; thorough = every item form
B_MENU = list(range(-1, len(cm.ITEMS))) if os.environ.get("XH_MENUS") == "thorough" else [-1, 0, 3, 7, 10]


def compile_text(text, path):
    page = Page(path)
    lexer = ZorgFileLexer(antlr4.InputStream(text))
    lexer.removeErrorListeners()
    parser = ZorgFileParser(antlr4.CommonTokenStream(lexer))
    parser.removeErrorListeners()
    em = ErrorManager()
    parser.addErrorListener(em)
    tree = parser.prog()
    antlr4.ParseTreeWalker().walk(ZorgFileCompiler(page, em), tree)
    assert not em.errors, em.errors
    return page


class _Sess:
    def __init__(self):
        self.added = []

    def add(self, obj):
        self.added.append(obj)


class _Conv:
    def from_entity(self, page):
        return page


def make_repo(zdir):
    sess = _Sess()
    repo = rp.SQLRepo(zdir, sess)
    repo._page_converter = _Conv()
    return repo, sess


def run(struct_i, a_i, a_cont, b_i, ids_i):
    old_lines = cm.build(struct_i, a_i, a_cont, b_i)
    fs = hx.FakeFS({"/z/p.zo": "\n".join(old_lines)})
    if cm.NEXT_IDS[ids_i] is not None:
        fs.files["/z/.zorg/next_ids.json"] = hx._JsonBlob(dict(cm.NEXT_IDS[ids_i]))
    zdir = hx.FakePath("/z", fs)
    ppath = hx.FakePath("/z/p.zo", fs)
    with NoTracing():
        page = compile_text("\n".join(old_lines), ppath)
        had_zid = [n.line_no for n in page.notes if n.zid]
    repo, sess = make_repo(zdir)
    repo.add_file(page)
    evs = list(page.events)
    page.events.clear()
    ok_events = all(isinstance(e, events.NewZorgNotesEvent) for e in evs) and len(evs) <= 1
    for ev in evs:
        for handler in mb.EVENT_HANDLERS[type(ev)]:
            handler(ev, None)
    new_text = fs.files["/z/p.zo"]
    mem = [cm.note_view(n) for n in page.notes]
    with NoTracing():
        new_text = deep_realize(new_text)
        mem = deep_realize(mem)
        again = compile_text(new_text, ppath)
        rec = [cm.note_view(n) for n in again.notes]
    # run again (db create / db reindex a second time): nothing may change
    repo2, _ = make_repo(zdir)
    repo2.add_file(again)
    second = dict(events=len(again.events), changed=[cm.note_view(n) for n in again.notes] != rec
                  or fs.files["/z/p.zo"] != new_text)
    hashes = fs.files.get("/z/.zorg/file_hash.json")
    ok_hash = (not evs) or (hashes is not None and hashes.obj == {"p.zo": new_text})
    return dict(old_lines=old_lines, new_lines=new_text.split("\n"), mem=mem, recompiled=rec, second=second,
                had_zid=had_zid, ok_events=ok_events, ok_hash=ok_hash, indexed=len(sess.added))


def kf_excluded(a_i, b_i):
    bad = set()
    if "KF-C05-1" in KNOWN:
        bad |= {9}
    return a_i in bad or b_i in bad


def create(struct_i: int, a_i: int, a_cont: int, b_i: int, ids_i: int) -> bool:
    """
    pre: 0 <= struct_i < len(cm.STRUCTS) and 0 <= a_i < len(cm.ITEMS) and 0 <= a_cont < len(cm.CONTS)
    pre: b_i in B_MENU and 0 <= ids_i < len(cm.NEXT_IDS)
    pre: PIN < 0 or struct_i == PIN
    pre: PIN_IDS < 0 or ids_i == PIN_IDS
    post: _
    """
    ob = run(struct_i, a_i, a_cont, b_i, ids_i)
    excluded = kf_excluded(a_i, b_i)      # (evaluated while tracing: the arguments are symbolic)
    with NoTracing():
        ob = deep_realize(ob)
        if excluded:
            return True
        ok, _why = cm.judge(ob)
    return V(ok and ob["ok_events"] and ob["ok_hash"] and ob["indexed"] == 1)


# ------------------------------------------------------------------ kernels with symbolic strings
def k_zid_line(ind: int, kind_i: int, pd: int, dated: bool, w: int, more: bool) -> bool:
    """
    pre: 0 <= ind <= 2 and 0 <= kind_i <= 2 and 0 <= pd <= 2 and 0 <= w <= 4
    pre: pd == 0 or kind_i > 0
    post: _
    """
    kind_i = [0, 1, 5][kind_i]
    # first line = indentation, kind, optional priority, optional YYYY-MM-DD, words: the ZID goes
    # right after the prefix, takes the place of the long date, everything else is kept
    pdv = [-1, 0, 9][pd]
    head = " " * ind + "-ox~<>"[kind_i] + " " + ("P%d " % pdv if pdv >= 0 else "")
    rest = ["a", "a1", "1-a", "240105", "2024-01-0"][w] + (" b  c" if more else "")
    line = head + ("2024-01-03 " if dated else "") + rest
    got = hd._add_zid_to_line("240103#00", line)
    return V(got == head + "240103#00 " + rest)


def k_long_date_word(d: str) -> bool:
    """
    pre: len(d) == 10
    pre: all(ch in "0123456789-" for ch in d)
    post: _
    """
    # which 10-character first words are taken for a long date by the file side (_add_zid_to_line)
    # and by the index side (is_long_date_spec in _add_zids): both must agree, else index != file
    from zorg.shared import dates as zdt
    line = "- " + d + " x"
    file_drops = hd._add_zid_to_line("240103#00", line) == "- 240103#00 x"
    index_drops = zdt.is_long_date_spec(d)
    return V(file_drops == index_drops)


def kf_moddate_no_zid(struct_i: int, a_cont: int, ids_i: int) -> bool:
    """
    pre: 0 <= struct_i < len(cm.STRUCTS) and 0 <= a_cont < len(cm.CONTS) and 0 <= ids_i < len(cm.NEXT_IDS)
    post: _
    """
    # complementary query of KF-C05-1: an item without ZID whose first word is a YYMMDD modify date
    ob = run(struct_i, 9, a_cont, -1, ids_i)
    with NoTracing():
        ob = deep_realize(ob)
        ok, _why = cm.judge(ob)
    return V(ok)


ZID_ALPHA = "".join(ch for ch in "0123456789ABCDEFGHIJKLMNOPQRSTUVWXYZabcdefghijklmnopqrstuvwxyz"
                    if ch not in "IOQSgijlpqy")


def create_suffix(c: str, carry: bool) -> bool:
    """
    pre: len(c) == 1 and c in ZID_ALPHA
    pre: not (carry and c == "z")
    post: _
    """
    # whatever suffix is stored as next for today's date (one symbolic character, with and without a
    # carry into it), the two ZIDs handed out to two new notes land in the file in a form the
    # compiler recognises again (index == recompiled file)
    stored = (c + "z") if carry else ("0" + c)
    old_lines = cm.build(0, 0, 0, 1)
    fs = hx.FakeFS({"/z/p.zo": "\n".join(old_lines)})
    fs.files["/z/.zorg/next_ids.json"] = hx._JsonBlob({"240510": stored})
    zdir = hx.FakePath("/z", fs)
    ppath = hx.FakePath("/z/p.zo", fs)
    with NoTracing():
        page = compile_text("\n".join(old_lines), ppath)
    repo, _sess = make_repo(zdir)
    repo.add_file(page)
    for ev in list(page.events):
        for handler in mb.EVENT_HANDLERS[type(ev)]:
            handler(ev, None)
    new_text = fs.files["/z/p.zo"]
    mem = [cm.note_view(n) for n in page.notes]
    with NoTracing():
        new_text = deep_realize(new_text)
        mem = deep_realize(mem)
        rec = [cm.note_view(n) for n in compile_text(new_text, ppath).notes]
        ok = mem == rec and all(m["zid"] for m in rec) and len({m["zid"] for m in rec}) == len(rec)
    return V(ok)
