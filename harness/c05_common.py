"""C05: page scenarios and the property oracle, shared by the CrossHair harness and the replay."""
import datetime as dt

# first lines of items WITHOUT a ZID: (kind/priority prefix, text after the prefix incl. its leading spacing)
ITEMS = [
    ("-", " alpha"),
    ("o", " beta gamma"),
    ("o P1", " beta"),
    ("-", " 2024-01-03 dated"),
    ("x P4", " 2024-01-03 done thing"),
    ("-", " has [[link]] #tag k::v"),
    ("<", " blocked (paren) 'quoted'"),
    ("-", "  two spaces after the prefix"),            # irregular spacing
    ("o P2", "  two spaces after the priority"),       # irregular spacing
    ("-", " 240105 six digit first word"),             # YYMMDD modify date but no ZID
    ("-", "  2024-01-03 dated after two spaces"),      # irregular spacing AND a leading long date
    ("o P2", "   2024-01-03 dated after three spaces"),
]
CONTS = [[], ["  * bullet", "  more text"]]
EXISTING = "- 240101#07 already has a zid"
# page skeletons; A and B are replaced by items (B may be absent)
STRUCTS = [
    ["# title", "", "A", "B", ""],
    ["# title 2024-02-02", "", EXISTING, "A", "", "B", ""],
    ["# title", "", "#" * 32 + " H1 2024-03-03", "A", "", "=" * 24 + " H2", "B", EXISTING, ""],
    ["# title", "", "A", "# in-block comment", "B", ""],
    # characters str.splitlines() breaks at but the page format does not (FF, LS) in a note ABOVE the ones that get ZIDs
    ["# title", "", "- 240101#08 al\x0cpha\u2028one", "A", "B", ""],
]
NEXT_IDS = [None, {"240103": "0z"}, {"240202": "zz", "240303": "9Z"}]
TODAY = dt.date(2024, 5, 10)


def build(struct_i, a_i, a_cont, b_i):
    lines = []
    for ln in STRUCTS[struct_i]:
        if ln == "A":
            lines.append(ITEMS[a_i][0] + ITEMS[a_i][1])
            lines.extend(CONTS[a_cont])
        elif ln == "B":
            if b_i >= 0:
                lines.append(ITEMS[b_i][0] + ITEMS[b_i][1])
        else:
            lines.append(ln)
    return lines


def is_zid_word(w):
    return len(w) in (9, 10) and w[:6].isdigit() and w[6] == "#"


def is_long_date(w):
    return len(w) == 10 and w[4] == "-" and w[7] == "-" and (w[:4] + w[5:7] + w[8:]).isdigit()


def note_view(n):
    return dict(zid=n.zid, kind=(n.todo_payload.status.value if n.todo_payload else "-"),
                priority=(n.todo_payload.priority if n.todo_payload else None), body=n.body,
                create_date=n.create_date, modify_date=n.modify_date, line_no=n.line_no,
                areas=sorted(n.areas), contexts=sorted(n.contexts), people=sorted(n.people),
                projects=sorted(n.projects), links=sorted(n.links), properties=dict(n.properties))


def judge(ob):
    """ob: old_lines, new_lines, mem (views of the in-memory/indexed notes after add_file), recompiled (views of the
    notes compiled from the rewritten file), second (dict: events, changed) of an immediately following run,
    had_zid (line numbers of notes that had a ZID before)"""
    old, new = ob["old_lines"], ob["new_lines"]
    if len(old) != len(new):
        return False, "line count changed %d -> %d" % (len(old), len(new))
    mem, rec = ob["mem"], ob["recompiled"]
    # every note carries a ZID in the file itself, all distinct
    zids = [r["zid"] for r in rec]
    if any(z is None for z in zids) or len(set(zids)) != len(zids):
        return False, "after the run the file's notes have ZIDs %r" % (zids,)
    # index == recompiled files
    if len(mem) != len(rec):
        return False, "index has %d notes, the rewritten file %d" % (len(mem), len(rec))
    for m, r in zip(mem, rec):
        for k in m:
            if m[k] != r[k]:
                return False, "index and file disagree on %s of %s: index %r, file %r" % (k, r["zid"], m[k], r[k])
    # the file differs only in first lines of notes that lacked a ZID, by the inserted ZID (long date dropped)
    first_lines = {r["line_no"] - 1: r for r in rec}
    for i, (a, b) in enumerate(zip(old, new)):
        if a == b:
            continue
        r = first_lines.get(i)
        if r is None or (i + 1) in ob["had_zid"]:
            return False, "line %d is not the first line of a note that lacked a ZID but changed: %r -> %r" % (i + 1, a, b)
        wa, wb = a.split(), b.split()
        k = 1 + (1 if (len(wa) > 1 and len(wa[1]) == 2 and wa[1][0] == "P" and wa[1][1].isdigit() and wa[0] != "-") else 0)
        rest = wa[k:]
        if rest and is_long_date(rest[0]):
            rest = rest[1:]
        if wb != wa[:k] + [r["zid"]] + rest:
            return False, "line %d: %r -> %r is not 'ZID inserted after the prefix'" % (i + 1, a, b)
        # the ZID's date is the note's creation date
        if r["zid"][:6] != r["create_date"].strftime("%Y%m%d")[2:]:
            return False, "ZID %s does not carry the creation date %s" % (r["zid"], r["create_date"])
    for i in first_lines:
        if (i + 1) not in ob["had_zid"] and old[i] == new[i]:
            return False, "note on line %d lacked a ZID and its line was not rewritten" % (i + 1)
    if ob["second"]["events"] or ob["second"]["changed"]:
        return False, "running again changes something: %r" % (ob["second"],)
    return True, ""
