"""C18 — File-group expansion flattens groups in place and in order.   (DESIGN.md §6)

CrossHair conditions (harness/c18_h.py) over the real expand_file_group_paths /
_paths_from_file_group with a harness-controlled clock (local time + zone offset).
Replay: the real function with the real clock frozen (freezegun, incl. tz_offset) and, for the
UTC/local-day question, a real process-level TZ change.
"""
import os as _os
_os.environ["XH_NO_PATCH"] = "1"   # this process replays on the real code: never patch zorg here

import datetime as dt
import importlib.util
import os
import sys

from vlib import xh
from vlib.driver import Report, handle_xh

HDIR = os.path.dirname(os.path.abspath(__file__))
H = os.path.join(HDIR, "c18_h.py")


def _load():
    spec = importlib.util.spec_from_file_location("c18_h_oracle", H)
    m = importlib.util.module_from_spec(spec)
    spec.loader.exec_module(m)
    return m


def _real_expand(args, real, now_tuple, off):
    """unpatched function, real clock: process TZ set to a fixed-offset zone, time frozen at the
    corresponding UTC instant with freezegun's tz_offset = the zone's offset"""
    import importlib
    import time
    from pathlib import Path
    from freezegun import freeze_time
    fgm = importlib.reload(importlib.import_module("zorg.service.file_groups"))
    local = dt.datetime(*now_tuple)
    utc = local - dt.timedelta(hours=off)
    old_tz = os.environ.get("TZ")
    os.environ["TZ"] = "XXX%+d" % (-off)     # POSIX sign convention: UTC+14 is "XXX-14"
    time.tzset()
    try:
        with freeze_time(utc, tz_offset=off):
            got = fgm.expand_file_group_paths([Path(a) if not a.startswith("@") else a for a in args],
                                              file_group_map=real)
    finally:
        if old_tz is None:
            os.environ.pop("TZ", None)
        else:
            os.environ["TZ"] = old_tz
        time.tzset()
    return [str(p) for p in got]


def _real_expand_seq(args, real, nows):
    """unpatched function, ONE import of the module, one expansion per frozen local time (UTC zone)"""
    import importlib
    from pathlib import Path
    from freezegun import freeze_time
    fgm = importlib.reload(importlib.import_module("zorg.service.file_groups"))
    out = []
    for now in nows:
        with freeze_time(dt.datetime(*now)):
            out.append([str(p) for p in fgm.expand_file_group_paths(
                [Path(a) if not a.startswith("@") else a for a in args], file_group_map=real)])
    return out


def _real_clock_expand(args, real, groups, m, off):
    import importlib
    import time
    from pathlib import Path
    fgm = importlib.reload(importlib.import_module("zorg.service.file_groups"))
    old_tz = os.environ.get("TZ")
    os.environ["TZ"] = "XXX%+d" % (-off)
    time.tzset()
    try:
        today = dt.datetime.now().date()
        got = [str(p) for p in fgm.expand_file_group_paths(
            [Path(a) if not a.startswith("@") else a for a in args], file_group_map=real)]
        if dt.datetime.now().date() != today:      # midnight passed in between: take the later day
            today = dt.datetime.now().date()
            got = [str(p) for p in fgm.expand_file_group_paths(
                [Path(a) if not a.startswith("@") else a for a in args], file_group_map=real)]
    finally:
        if old_tz is None:
            os.environ.pop("TZ", None)
        else:
            os.environ["TZ"] = old_tz
        time.tzset()
    want = [str(Path(w)) for w in m.o_expand(args, groups, "p.zo", today)]
    return got, want, today


def replayer(name, args, kwargs, meta):
    from pathlib import Path
    m = _load()
    if name == "nesting":
        m00, m01, m10, a1 = args
        g0 = [m.SMALL[i] for i in (m00, m01) if m.SMALL[i]]
        g1 = [m.SMALL[i] for i in (m10,) if m.SMALL[i] and m.SMALL[i] != "@g1"] + ["q.zo"]
        groups = {"g0": g0, "g1": g1, "g2": ["r.zo"]}
        a = ["@g0"] + ([["@g1", "@g2", "x.zo"][a1]] if a1 >= 0 else [])
        now, off = m.NOWS[0], 0
    elif name == "dates":
        mm, nested, now_i, off = args
        groups = {"g0": ["@g1", "P"] if nested else [m.MEMBERS[mm], "P"], "g1": [m.MEMBERS[mm]], "g2": []}
        a = ["x.zo", "@g0"]
        now = m.NOWS[now_i]
    elif name == "two_days":
        mm, nested, now_a, now_b = args
        groups = {"g0": ["@g1", "P"] if nested else [m.MEMBERS[mm], "P"], "g1": [m.MEMBERS[mm]], "g2": []}
        real = {k: ["p.zo" if x == "P" else x for x in v] for k, v in groups.items()}
        a = ["x.zo", "@g0"]
        got = _real_expand_seq(a, real, [m.NOWS[now_a], m.NOWS[now_b]])
        for g, now in zip(got, (m.NOWS[now_a], m.NOWS[now_b])):
            want = [str(Path(w)) for w in m.o_expand(a, groups, "p.zo", dt.date(*now[:3]))]
            if g != want:
                return True, {"summary": "groups %r, arguments %r expanded at local times %r and then %r in one process: the "
                                         "expansion at %r gives %r, expected %r" % (real, a, m.NOWS[now_a], m.NOWS[now_b], now, g, want)}
        return False, {"summary": "both expansions as expected"}
    elif name == "concat":
        m00, m01, m10, a0, a1, a2 = args
        g0 = [m.SMALL[i] for i in (m00, m01) if m.SMALL[i]]
        g1 = [m.SMALL[i] for i in (m10,) if m.SMALL[i] and m.SMALL[i] != "@g1"]
        real = {"g0": ["p.zo" if x == "P" else x for x in g0], "g1": ["q.zo" if x == "P" else x for x in g1], "g2": ["r.zo"]}
        A = ["@g0", "@g1", "x.zo"]
        xs, ys = [A[a0]], [A[a1], A[a2]]
        e = lambda zs: _real_expand(zs, real, m.NOWS[0], 0)  # noqa: E731
        l, r = e(xs + ys), e(xs) + e(ys)
        return l != r, {"summary": "groups %r: expand(%r) = %r but expand(%r)+expand(%r) = %r" % (real, xs + ys, l, xs, ys, r)}
    elif name == "plain_name":
        i, k = args
        nm = m.PLAIN[i]
        member = nm if not nm.startswith("@") else "m.zo"
        real = {"g0": ["first.zo", member, "last.zo"]}
        a = ["a.zo", "a.zo"]
        if not nm.startswith("@"):
            a[k] = nm
        got = _real_expand(a + ["@g0"], real, m.NOWS[0], 0)
        want = [str(Path(x)) for x in a] + ["first.zo", str(Path(member)), "last.zo"]
        return got != want, {"summary": "expand(%r) with g0=%r gives %r, expected %r" % (a + ["@g0"], real["g0"], got, want)}
    else:
        return False, {"summary": "no replayer for " + name}
    real = {k: ["p.zo" if x == "P" else x for x in v] for k, v in groups.items()}
    y, mo, d = now[:3]
    want = [str(Path(w)) for w in m.o_expand(a, groups, "p.zo", dt.date(y, mo, d))]
    got = _real_expand(a, real, now, off)
    if got != want:
        return True, {"summary": "groups %r, arguments %r, local time %r (UTC%+d): got %r, expected %r" % (
            real, a, now, off, got, want)}
    # freezegun shifts now(tz) together with now(), so a wrong use of UTC is invisible under it: replay the
    # same configuration on the REAL clock in the zones UTC+14 and UTC-12 (at any instant one of them is on
    # another calendar day than UTC) against the oracle for that zone's real local day
    for zoff in (14, -12):
        g2, w2, today = _real_clock_expand(a, real, groups, m, zoff)
        if g2 != w2:
            return True, {"summary": "groups %r, arguments %r on the real clock in a zone UTC%+d (local day %s): got %r, "
                                     "expected %r" % (real, a, zoff, today, g2, w2)}
    return False, {"summary": "got %r as expected" % (got,)}


def main():
    tier = sys.argv[1] if len(sys.argv) > 1 else "quick"
    seed = int(sys.argv[2]) if len(sys.argv) > 2 else 0
    rep = Report("C18", tier, seed)
    rep.describe(
        explanation=(
            "CrossHair/z3 symbolic execution of the real expand_file_group_paths / _paths_from_file_group against an "
            "independent recursive flattening: all acyclic structures of the stated shape (shared sub-groups, diamonds, "
            "repeats, empty groups, a group that is also an argument), date patterns on days around month/year boundaries "
            "in zones UTC-12/UTC/UTC+14, two expansions on different days in one process, the concatenation law, and pass-through of ordinary paths."),
        functions=["zorg.service.file_groups.expand_file_group_paths", "zorg.service.file_groups._paths_from_file_group"],
        stubs=["clock: datetime.now() = harness-chosen local time; datetime.now(tz) = the same instant in tz for a zone "
               "UTC_OFFSET_H hours from UTC (replay uses the real clock: TZ + freezegun)"],
        bounds=["groups g0 -> {g1,g2}, g1 -> {g2}, g2 leaf; g0: 2 members from {absent,@g1,@g2,plain}, g1: 1 such member + a "
                "literal, g2: a literal; arguments @g0 followed by nothing/@g1/@g2/a path",
                "4 date patterns (yyyymmdd[0], [6], days[1] with format specs, two indices in one member) x nested or not x 4 "
                "local times (00:30 on Mar 1 of a leap year, 23:30 on Mar 3, Jan 4, Jan 2 of an ISO-year-53 year) x 3 zone offsets",
                "concatenation: xs of 1 and ys of 2 arguments over {@g0,@g1,x.zo}", "7 plain path spellings"],
        outside=["cyclic maps (excluded by the quantifier)", "nesting deeper than 3 or more than 3 groups",
                 "members containing braces that are not date patterns",
                 "the callers' defaults (_process_zo_paths, clack_parser): argument plumbing, not modelled"])
    T = 150 if tier == "quick" else 500
    # engine cross-validation spaces (vlib/concrete_worker.py); CrossHair skips functools.lru_cache under tracing, so a result
    # remembered across calls (two_days) can only show in the untraced runs
    CC = {"nesting": [[0, 4], [0, 4], [0, 4], [-1, 3]], "dates": [[4, 8], [0, 2], [0, 4], [-12, 15]],
          "two_days": [[4, 8], [0, 2], [0, 4], [0, 4]], "concat": [[0, 4], [0, 4], [0, 4], [0, 3], [0, 3], [2, 3]],
          "plain_name": [[0, 7], [0, 2]]}
    conds = [xh.Cond(H, n, timeout=T, meta={"family": "c18"}, cc={"ranges": CC[n], "max": 400})
             for n in ("nesting", "dates", "two_days", "concat", "plain_name")]
    conds.append(xh.Cond(H, "nesting", timeout=30, twin=True, meta={"family": "twin"}))
    conds.append(xh.Cond(H, "dates", timeout=30, twin=True, meta={"family": "twin"}))
    results = xh.run_all(conds)
    handle_xh(rep, results, replayer)
    rep.sample({"groups": {"g0": ["@g1", "@g2"], "g1": ["@g2", "q.zo"], "g2": ["r.zo"]}, "arguments": ["@g0", "@g1"]})
    sys.exit(rep.finish())


if __name__ == "__main__":
    main()
