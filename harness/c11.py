"""C11 — Modification dates are stamped on exactly the notes that were edited.   (DESIGN.md §5)

CrossHair conditions (harness/c11_h.py): one per old note form, over solver-chosen edits / second
note / new note / title edit / calendar day, through the real decision (_check_for_modified_notes),
the registered event handler (write-back into the file) and a second round; kernels for the
first-line rewrite and the decision on hand-made notes.
Replay: the whole public path with a frozen clock - `db create` on the old text, edit the file,
`db reindex` on the scenario's day, read the SQLite rows and the file, `db reindex` again.
"""
import os as _os
_os.environ["XH_NO_PATCH"] = "1"   # this process replays on the real code: never patch zorg here

import datetime as dt
import os
import shutil
import sys
import tempfile

from vlib import xh
from vlib.driver import Report, handle_xh, known_findings
from harness import c11_common as cm

HDIR = os.path.dirname(os.path.abspath(__file__))
H = os.path.join(HDIR, "c11_h.py")


def _db_notes(db_url):
    from sqlmodel import Session, select
    from zorg.storage.sql import _models as sql
    from zorg.storage.sql._engine import create_cached_engine
    with Session(create_cached_engine(db_url)) as s:
        rows = s.exec(select(sql.Note)).all()
        return [dict(zid=r.zid, body=r.body, modify_date=r.modify_date, line_no=r.line_no) for r in rows]


def replay_stamp(args):
    from pathlib import Path
    from freezegun import freeze_time
    from zorg.domain.messages import commands
    from zorg.service import messagebus
    from zorg.service.compiler import walk_zorg_page
    form_i, edit_i, b_edit, new_note, title_edit, today_i = args
    today = cm.TODAYS[today_i]
    old_lines, new_lines = cm.scenario(form_i, edit_i, b_edit, new_note, title_edit)
    d = tempfile.mkdtemp(prefix="c11r")
    try:
        z = Path(d)
        db = "sqlite:///%s/.zorg/zorg.db" % d
        (z / "p.zo").write_text("\n".join(old_lines))
        with freeze_time("2023-12-31 10:00:00"):
            messagebus.handle(z, db, [commands.CreateDBCommand(z, False)], should_delete_existing_db=True)
        before = {r["zid"]: r for r in _db_notes(db)}
        old_page_notes = None
        (z / "p.zo").write_text("\n".join(new_lines))
        with freeze_time(today.strftime("%Y-%m-%d") + " 10:00:00"):
            old_compiled = None
            messagebus.handle(z, db, [commands.ReindexDBCommand(z, paths=[])])
            after_text = (z / "p.zo").read_text()
            mem = _db_notes(db)
            page = walk_zorg_page(z, z / "p.zo")
            recompiled = [dict(zid=n.zid, body=n.body, modify_date=n.modify_date, line_no=n.line_no) for n in page.notes]
            messagebus.handle(z, db, [commands.ReindexDBCommand(z, paths=[])])
            text2 = (z / "p.zo").read_text()
            mem2 = _db_notes(db)
        # which notes were stamped: index modify date moved to today / first line gained today's date
        stamped = []
        for m in mem:
            b = before.get(m["zid"])
            if b is not None and m["modify_date"] == today and (b["modify_date"] != today or b["body"] != m["body"]) \
                    and m["body"].startswith(cm.short(today) + " ") and not b["body"].startswith(cm.short(today) + " "):
                stamped.append(m["zid"])
        # expected, from the statement, on the compiled old/new texts
        with freeze_time(today.strftime("%Y-%m-%d") + " 10:00:00"):
            tmp2 = tempfile.mkdtemp(prefix="c11o")
            try:
                (Path(tmp2) / "o.zo").write_text("\n".join(old_lines))
                (Path(tmp2) / "n.zo").write_text("\n".join(new_lines))
                o_notes = walk_zorg_page(Path(tmp2), Path(tmp2) / "o.zo").notes
                n_notes = walk_zorg_page(Path(tmp2), Path(tmp2) / "n.zo").notes
            finally:
                shutil.rmtree(tmp2, ignore_errors=True)
        expected = cm.expected_stamped(o_notes, n_notes, today)
        # the new note without ZID gains one during reindex (C05's subject): normalise it away
        after_lines = after_text.split("\n")
        norm_after = []
        for ln in after_lines:
            w = ln.split(" ")
            if len(w) == 3 and w[0] == "-" and w[2] == "gamma":
                ln = "- gamma"
            norm_after.append(ln)
        keep = lambda r: r["zid"] in (cm.Z1, cm.Z2)  # noqa: E731
        second = [] if (text2 == after_text and mem2 == mem) else ["file or index changed on the second reindex"]
        ob = dict(today=today, new_lines=new_lines, after_lines=norm_after, stamped=stamped, expected=expected,
                  mem=[m for m in mem if keep(m)], recompiled=[r for r in recompiled if keep(r)], second_round=second)
        ok, why = cm.judge(ob)
        return (not ok), {"summary": "reindex on %s of page %r (was %r): %s" % (
            today, "\n".join(new_lines), "\n".join(old_lines), why), "old_file": "\n".join(old_lines),
            "edited_file": "\n".join(new_lines), "file_after_reindex": after_text, "index_after": mem,
            "today": str(today), "why": why}
    finally:
        shutil.rmtree(d, ignore_errors=True)


def replay_kernel(name, args):
    from zorg.service import handlers as hd
    if name == "k_stamp_line":
        ind, kind_i, pd, has_date, w, more = args
        kind_i = [0, 1, 4][kind_i]
        pd = [-1, 0, 9][pd]
        rest = ["", "a", "a1", "1"][w] + (" b  c" if more else "")
        head = " " * ind + "-ox~<>"[kind_i] + " " + ("P%d " % pd if pd >= 0 else "")
        line = head + ("231231 " if has_date else "") + cm.Z1 + " " + rest
        got = hd._add_or_update_modify_date("240106", line)
        want = head + "240106 " + cm.Z1 + " " + rest
        return got != want, {"summary": "first line %r is rewritten to %r, expected %r" % (line, got, want)}
    if name == "k_stamp_line_date":
        line = "o P1 " + args[0] + " " + cm.Z1 + " x"
        got = hd._add_or_update_modify_date("240106", line)
        return got != "o P1 240106 " + cm.Z1 + " x", {"summary": "first line %r is rewritten to %r" % (line, got)}
    if name == "k_decision":
        from pathlib import Path
        from freezegun import freeze_time
        from zorg.domain.models import Block, H1, Note, Page, TodoPayload
        from zorg.domain.types import NoteType
        zid_same, body_same, kind_same, pri_same, md, today, has_zid = args
        days = [dt.date(2024, 1, 4), dt.date(2024, 1, 5), dt.date(2024, 1, 6)]
        oldn = Note("240101#01 a", file_path=Path("p.zo"), line_no=3, zid="240101#01", create_date=cm.ZDATE,
                    modify_date=cm.ZDATE, todo_payload=TodoPayload("P1", NoteType.OPEN_TODO))
        newn = Note("240101#01 a" if body_same else "240101#01 b", file_path=Path("p.zo"), line_no=3,
                    zid=("240101#01" if zid_same else "240101#09") if has_zid else None, create_date=cm.ZDATE,
                    modify_date=days[md], todo_payload=TodoPayload("P1" if pri_same else "P2",
                                                                   NoteType.OPEN_TODO if kind_same else NoteType.CLOSED_TODO))
        po, pn = Page(Path("p.zo")), Page(Path("p.zo"))
        po.h0 = H1("", [Block(notes=[oldn])])
        pn.h0 = H1("", [Block(notes=[newn])])
        with freeze_time(days[today].strftime("%Y-%m-%d") + " 09:00:00"):
            hd._check_for_modified_notes(Path("/z"), pn, po)
        stamped = bool(pn.events)
        want = has_zid and zid_same and not (body_same and kind_same and pri_same) and md != today
        return stamped != want, {"summary": "decision %s, expected %s for args %r" % (stamped, want, args)}
    return False, {"summary": "no replayer for " + name}


def replayer(name, args, kwargs, meta):
    if name == "stamp":
        return replay_stamp(args)
    return replay_kernel(name, args)


def main():
    tier = sys.argv[1] if len(sys.argv) > 1 else "quick"
    seed = int(sys.argv[2]) if len(sys.argv) > 2 else 0
    rep = Report("C11", tier, seed)
    rep.describe(
        explanation=(
            "CrossHair/z3 symbolic execution of the real _check_for_modified_notes, Note.__eq__, the registered "
            "ModifiedZorgNotesEvent handler (update_note_modify_dates -> _update_zo_file -> _add_or_update_modify_date, "
            "_pop_line_before_zid) over solver-chosen edit scenarios of a two-to-three-note page on three calendar days; "
            "old and new page are compiled from the scenario texts with the real compiler; the oracle is the statement: "
            "stamped set, byte-identical other lines, exactly today's YYMMDD in front of the ZID, index == recompiled file, "
            "nothing stamped by an immediately following round."),
        functions=["zorg.service.handlers._check_for_modified_notes/update_note_modify_dates/_update_zo_file/"
                   "_add_or_update_modify_date/_pop_line_before_zid/_get_file_hash_map/_write_file_hash_to_disk",
                   "zorg.domain.models.Note.__eq__", "zorg.shared.dates.to_short_date_spec/is_short_date_spec",
                   "ZorgFileCompiler (concretely, on scenario texts and on the rewritten file)"],
        stubs=["clock: date.today() harness-controlled in handlers and the compiler", "in-memory FS",
               "_hash_file = identity on file contents (collision-free)", "json identity shim",
               "old_zorg_page = page compiled from the old text (the SQL round trip is outside; exercised in replay)"],
        bounds=["%d old forms x %d edits x second note edited? x new ZID-less note? x title edited? x 3 days" % (
            len(cm.OLD_FORMS), len(cm.EDITS)),
            "kernels: indentation 0-2, 3 kinds, priority none/P0/P9, with/without old date, 8 rests; any 6-digit old date; "
            "decision over all flag combinations on 3 days"],
        outside=["more than three notes per page; irregular spacing inside the prefix; days further apart than the window"])
    kf_active, _ = known_findings("C11")
    kf_ids = {e["id"] for e in kf_active}
    T = 90 if tier == "quick" else 360
    env0 = {"XH_KNOWN": ",".join(sorted(kf_ids))}
    conds = []
    for i in range(len(cm.OLD_FORMS)):
        conds.append(xh.Cond(H, "stamp", timeout=T, env=dict(env0, XH_FORM=i),
                             meta={"variant": "form%d" % i, "family": "stamp", "bound": "old form %r" % (cm.OLD_FORMS[i],)}))
    for nm in ("k_stamp_line", "k_stamp_line_date", "k_decision"):
        conds.append(xh.Cond(H, nm, timeout=T, env=env0, meta={"family": "kernel"}))
    conds.append(xh.Cond(H, "stamp", timeout=30, twin=True, env=dict(env0, XH_FORM=0), meta={"variant": "form0", "family": "twin"}))
    conds.append(xh.Cond(H, "k_decision", timeout=30, twin=True, env=env0, meta={"family": "twin"}))
    results = xh.run_all(conds)
    handle_xh(rep, results, replayer)
    old, new = cm.scenario(3, 1, True, True, False)
    rep.sample({"old_file": old, "edited_file": new, "today": str(cm.TODAYS[1])})
    sys.exit(rep.finish())


if __name__ == "__main__":
    main()
