"""C08 CrossHair harness: indexing never crashes on any file and never silently drops a broken one.

Part A/B: pages are assembled from solver-chosen parts (risky word forms; single-token deletions and
duplications of valid pages) and compiled by the REAL walk_zorg_page (lexer, parser, ErrorManager,
walker, ZorgFileCompiler) - concretely, outside tracing, because the ANTLR runtime cannot be traced
(DESIGN.md §2.1); the solver's part is the choice of the page.  An independent parse with a plain
error listener says whether the parser reports a syntax error.
Part C: the refusal logic of the real create_database / reindex_database (entered through
COMMAND_HANDLERS) under symbolic has_errors / whitelist / -f flags with walk_zorg_page stubbed.
Stubs: antlr4.FileStream reads the in-memory text; in-memory FS, json shim, hash = identity,
recording repo, console output silent.
"""
import os
from pathlib import Path

import antlr4
from antlr4.error.ErrorListener import ErrorListener
from crosshair.core import deep_realize
from crosshair.tracers import NoTracing

from vlib import hx
from vlib.hx import V
from harness import c01_common as cm
from vlib import skel
from zorg.domain.messages import commands
from zorg.domain.models import H1, Block, Note, Page
from zorg.grammar.zorg_file.ZorgFileLexer import ZorgFileLexer
from zorg.grammar.zorg_file.ZorgFileParser import ZorgFileParser
from zorg.service import handlers as hd
from zorg.service import messagebus as mb
from zorg.service.compiler import _api as api
from zorg.shared import common as c
from zorg.storage.sql import _zid_manager as zm

hx.stub_loggers()
KNOWN = set(x for x in os.environ.get("XH_KNOWN", "").split(",") if x)
TEXT = [None]


class _AntlrShim:
    """antlr4 as seen by zorg.service.compiler._api: FileStream serves the harness' in-memory text"""

    def __getattr__(self, name):
        return getattr(antlr4, name)

    @staticmethod
    def FileStream(path, encoding="ascii", errors="strict"):
        return antlr4.InputStream(TEXT[0])


hx.put(api, "antlr4", _AntlrShim())


class _Errs(ErrorListener):
    def __init__(self):
        self.n = 0

    def syntaxError(self, *a):
        self.n += 1


def parser_errors(text):
    lexer = ZorgFileLexer(antlr4.InputStream(text))
    lexer.removeErrorListeners()
    parser = ZorgFileParser(antlr4.CommonTokenStream(lexer))
    parser.removeErrorListeners()
    e = _Errs()
    parser.addErrorListener(e)
    parser.prog()
    return e.n


def conc(*xs):
    """realise symbolic ints WHILE TRACING, by binary search (8 decisions per value instead of up to 200 equality tests), so
    that every choice is a decision in CrossHair's path tree and the space is exhausted exactly once"""
    out = []
    for x in xs:
        v = 0
        for b in (128, 64, 32, 16, 8, 4, 2, 1):
            if x >= v + b:
                v += b
        out.append(v)
    return out


def judge_text(text, verbose):
    """(ok, why, kf): the statement on one concrete text through the real walk_zorg_page"""
    TEXT[0] = text
    nerr = parser_errors(text)
    try:
        page = api.walk_zorg_page(Path("/z"), Path("/z/p.zo"), verbose=verbose)
    except Exception as e:  # noqa
        return False, "compiling raises %s: %s" % (type(e).__name__, e), False
    notes = page.notes
    if nerr:
        if not page.has_errors:
            return False, "parser reported %d error(s) but the page is not flagged (notes: %d)" % (nerr, len(notes)), len(notes) == 0
        if notes:
            return False, "flagged page still carries %d notes (partial page)" % len(notes), False
        return True, "", False
    if page.has_errors:
        return False, "no parser error but the page is flagged", False
    return True, "", False


# ------------------------------------------------------------------ part A: risky word forms on valid pages
FIRST = ["w", "240612", "241332", "690004", "240510#0R", "240231#0R", "241900#00", "2024-03-09", "2024-19-39", "o", "x", "P5", "1230",
         "[k::v]", "[k:: v w]", "[a::b::c]", "k::v", "k::", "[^X]", "[^l]", "[#g]", "[[l]]", "[[l#a]]", "((e))", "https://a.b/c?d=e#f",
         "#t", "#12", "'q", '"q"', "~", "*", "-"]
SECOND = ["", "w", "240510#0R", "240612", "[k:: v w]", "[a::b::c]", "k::", "a::", "::", "'", "[", "]", "[[", "]]", "(( ))", "P5 P6", "@", "#"]
CONTS = [[], ["  * bullet"], ["  * k:: v w"], ["  *   * b"], ["  * "], ["  *"], ["    - k:: v", "      + j:: w"], ["  * k::"], ["  * 240612 k:: v"],
         ["  * 240510#0R k:: v"], ["  continuation a::"], ["  *   "], ["  * k::  v   w  "], ["   "]]
PIN_KIND = int(os.environ.get("XH_KIND", "-1"))
PIN_W1 = os.environ.get("XH_W1", "")


def _w1_ok(w1):
    if not PIN_W1:
        return True
    lo, hi = PIN_W1.split("-")
    return int(lo) <= w1 < int(hi)


def risky_text(kind_i, pri, w1, w2, cont_i, zid_first, bare=False):
    kind = cm.KINDS[kind_i]
    words = ([("240510#0Z")] if zid_first else []) + [FIRST[w1]] + ([SECOND[w2]] if SECOND[w2] else []) + ["end"]
    if bare:        # a headline that holds nothing but a modify date and/or the ZID
        words = (["240612"] if w1 % 2 else []) + ["240510#0Z"]
    line = kind + (" P2" if (pri and kind != "-") else "") + " " + " ".join(words)
    return "# title\n\n" + line + "\n" + "".join(ln + "\n" for ln in CONTS[cont_i])


def risky(kind_i: int, w1: int, w2: int, zid_first: bool, verbose: bool) -> bool:
    """
    pre: 0 <= kind_i < 2 and 0 <= w1 < len(FIRST) and 0 <= w2 < len(SECOND)
    pre: PIN_KIND < 0 or kind_i == PIN_KIND
    pre: _w1_ok(w1)
    post: _
    """
    # every pair (first word form, second word form) on a one-line plain note / prioritised todo
    kind_i, w1, w2 = conc(kind_i, w1, w2)
    zid_first, verbose = (True if zid_first else False), (True if verbose else False)
    with NoTracing():
        ok, _why, kf = judge_text(risky_text(kind_i, kind_i == 1, w1, w2, 0, zid_first), verbose)
        if not ok and kf and "KF-C08-1" in KNOWN:
            return True
    return V(ok)


FIRST_FOR_CONT = [0, 1, 4, 14, 16, 17, 25]      # w, six-digit date, ZID, [k:: v w], k::v, k::, #t


def risky_cont(kind_i: int, f: int, cont_i: int, zid_first: bool, bare: bool) -> bool:
    """
    pre: 0 <= kind_i < 6 and 0 <= f < len(FIRST_FOR_CONT) and 0 <= cont_i < len(CONTS)
    pre: not bare or f < 2
    pre: PIN_KIND < 0 or kind_i == PIN_KIND
    post: _
    """
    # continuation lines of every bullet / property-bullet shape under 7 first-word forms, all six kinds
    kind_i, f, cont_i = conc(kind_i, f, cont_i)
    zid_first, bare = (True if zid_first else False), (True if bare else False)
    with NoTracing():
        ok, _why, kf = judge_text(risky_text(kind_i, kind_i % 2 == 1, FIRST_FOR_CONT[f], 0, cont_i, zid_first, bare), False)
        if not ok and kf and "KF-C08-1" in KNOWN:
            return True
    return V(ok)


# ------------------------------------------------------------------ part B: single-token edits of valid pages
def base_pages():
    out = []
    specs = cm.core_set("quick")
    for s in specs[::4]:
        out.append(skel.assemble(s.parts())[0])
    for s in cm.section_set("quick")[::3]:
        out.append(skel.assemble(s.parts())[0])
    out.append("# t #a [[l]] k::v 2024-01-02\n# second\n\n- 240101#01 n [k:: v w] 'q'\n  * b\n# in-block comment\no P1 240102#02 t\n\n"
               + "=" * 24 + " S @c\n- 240103#03 m\n\n" + "+" * 16 + " T\nx 240104#04 d ((e)) https://a.b\n")
    return out


BASES = base_pages()


def tokens_of(text):
    lexer = ZorgFileLexer(antlr4.InputStream(text))
    lexer.removeErrorListeners()
    toks = []
    while True:
        t = lexer.nextToken()
        if t.type == -1:
            break
        toks.append((t.start, t.stop))
    return toks


TOKS = [tokens_of(b) for b in BASES]
PIN_BASE = os.environ.get("XH_BASE", "")


def _base_ok(b):
    if not PIN_BASE:
        return True
    lo, hi = PIN_BASE.split("-")
    return int(lo) <= b < int(hi)


def edited_text(b, j, dup):
    text = BASES[b]
    toks = TOKS[b]
    if j >= len(toks):
        return None
    s, e = toks[j]
    return text[:e + 1] + text[s:e + 1] + text[e + 1:] if dup else text[:s] + text[e + 1:]


def edited(b: int, j: int, dup: bool) -> bool:
    """
    pre: 0 <= b < len(BASES) and 0 <= j < 80 and _base_ok(b)
    post: _
    """
    # (verbose mode for odd token indices, default mode for even ones)
    b, j = conc(b, j)
    dup, verbose = (True if dup else False), (j % 2 == 1)
    with NoTracing():
        text = edited_text(b, j, dup)
        if text is None:
            return True
        ok, _why, kf = judge_text(text, verbose)
        if not ok and kf and "KF-C08-1" in KNOWN:
            return True
    return V(ok)


def kf_unflagged_broken_page(i: int, verbose: bool) -> bool:
    """
    pre: 0 <= i < len(KF_PAGES)
    post: _
    """
    # complementary query of KF-C08-1: broken pages on which the compiler reaches no note
    (i,) = conc(i)
    verbose = True if verbose else False
    with NoTracing():
        ok, _why, _kf = judge_text(KF_PAGES[i], verbose)
    return V(ok)


KF_PAGES = ["# t\n\nfoo bar\n", "# t\n\nfoo bar\n- z a\n", "# t\n\n" + "+" * 16 + " H3 without H2\n- n\n"]


# ------------------------------------------------------------------ part C: refusal logic
hx.put(hd, "json", hx.JsonShim)
hx.put(zm, "json", hx.JsonShim)
hx.put(hd, "_hash_file", lambda p, chunk_size=8192: "H(" + p.read_text() + ")")
hx.put(hd, "_check_for_modified_notes", lambda zdir, page, old: None)
hx.put(hd, "tqdm", lambda it, **k: it)
hx.put(c, "zprint", lambda *a, **k: None)
PAGES = ["todo.zo", "old_todo.zo", "arch/todo.zo"]      # names that contain one another
BROKEN = [None]


def stub_walk(zdir, path, verbose=False):
    p = path if str(path).startswith("/z/") else zdir / str(path)
    name = str(p)[3:]
    page = Page(p)
    page.has_errors = BROKEN[0][PAGES.index(name)]
    notes = [] if page.has_errors else [Note("240101#0%d n" % PAGES.index(name), file_path=p, line_no=3,
                                             zid="240101#0%d" % PAGES.index(name))]
    page.h0 = H1("", [Block(notes=notes)])
    return page


hx.put(hd, "walk_zorg_page", stub_walk)


class RecRepo:
    def __init__(self):
        self.added, self.removed, self.seen_pages = [], [], []

    def add_file(self, page, **k):
        self.added.append((str(page.path)[3:], len(page.notes), page.has_errors))

    def remove_file_by_name(self, name):
        self.removed.append(name)
        return None


class RecSession:
    def __init__(self):
        self.repo = RecRepo()
        self.commits = 0

    def commit(self):
        self.commits += 1


def refusal(e0: bool, e1: bool, e2: bool, w0: bool, w1: bool, w2: bool, force: bool, reindex: bool) -> bool:
    """
    pre: True
    post: _
    """
    # three pages (names containing one another); e_i: the page is broken; w_i: it is on the whitelist;
    # force: -f (update the whitelist); reindex: `db reindex` instead of `db create`
    fs = hx.FakeFS({"/z/" + n: "text of " + n for n in PAGES})
    wl = [n for n, w in zip(PAGES, (w0, w1, w2)) if w]
    fs.files["/z/.zorg/error_file_whitelist.txt"] = "\n".join(sorted(wl))
    BROKEN[0] = [e0, e1, e2]
    zdir = hx.FakePath("/z", fs)
    sess = RecSession()
    if reindex:
        cmd = commands.ReindexDBCommand(zdir, paths=[])
        force = False                       # reindex has no -f
    else:
        cmd = commands.CreateDBCommand(zdir, force)
    raised = False
    try:
        mb.COMMAND_HANDLERS[type(cmd)](cmd, sess)
    except RuntimeError:
        raised = True
    broken = [n for n, e in zip(PAGES, (e0, e1, e2)) if e]
    must_refuse = any((n not in wl) and not force for n in broken)
    if raised != must_refuse:
        return V(False)
    if raised:
        # a refused run must not have committed the broken page
        return V(True)
    after = fs.files["/z/.zorg/error_file_whitelist.txt"].split("\n")
    want_wl = sorted(broken)
    if [x for x in after if x] != want_wl:
        return V(False)
    # every page reached the index exactly once; accepted good pages with all their notes
    added = sorted(sess.repo.added)
    want = sorted((n, 0 if e else 1, e) for n, e in zip(PAGES, (e0, e1, e2)))
    return V(added == want)
