"""C15 CrossHair harness: the word scan of a saved query's first line, and the missing-name path.

Real code under symbolic execution: zorg.service.swog._saved_queries._get_saved_where_filter,
_get_saved_query_names, expand_saved_queries, _parenthesize; execute_with_session's failure path.
Stub: in-memory FS behind c.prepend_zdir.
"""
from vlib import hx
from vlib.hx import V
from zorg.service.swog import _saved_queries as sq
from zorg.service.swog import _executor as ex
from zorg.shared import common as c

hx.stub_loggers()
FS = [None]


def fake_prepend_zdir(zdir, path):
    p = str(path)
    return hx.FakePath("/z/" + p, FS[0])


hx.put(c, "prepend_zdir", fake_prepend_zdir)
S_WORDS = ["", "S note", "S count(#)"]
W_WORDS = ["#a", "#a #b", "#a | #b", "(#a | #b) #c", "!#a (#b | #c) | #d", "o P1-2 #a"]
O_WORDS = ["", "O alpha", "O priority create"]
G_WORDS = ["", "G file", "G file section"]


def line(si, wi, oi, gi, og):
    parts = [S_WORDS[si], "W " + W_WORDS[wi]]
    tail = [O_WORDS[oi], G_WORDS[gi]]
    if og:
        tail.reverse()
    return "# " + " ".join(p for p in parts + tail if p)


def scan(si: int, wi: int, oi: int, gi: int, og: bool, extra: bool) -> bool:
    """
    pre: 0 <= si < 3 and 0 <= wi < len(W_WORDS) and 0 <= oi < 3 and 0 <= gi < 3
    post: _
    """
    # the WHERE words of a saved query are exactly the words between W and the next O / G (or the end of the line),
    # whatever S / O / G clauses surround them, and further lines of the page are ignored
    text = line(si, wi, oi, gi, og) + ("\n#\n# SAVED QUERY GENERATED ON 2024-01-01.\n\n- 240101#01 W x O y\n" if extra else "")
    FS[0] = hx.FakeFS({"/z/zoq/q.zoq": text})
    got = sq._get_saved_where_filter("/z", "q")
    return V(got == W_WORDS[wi])


def missing(present: bool, depth: int, wi: int) -> bool:
    """
    pre: 0 <= depth <= 3 and 0 <= wi < len(W_WORDS)
    post: _
    """
    # a reference chain q0 -> q1 -> ... of the given depth whose LAST link exists or not: expansion is None iff it is
    # missing (never a silently dropped reference), and execute_with_session raises for it
    files = {}
    for k in range(depth):
        files["/z/zoq/q%d.zoq" % k] = "# W #t%d {q%d} O alpha" % (k, k + 1)
    if present:
        files["/z/zoq/q%d.zoq" % depth] = "# S note W " + W_WORDS[wi] + " G file"
    FS[0] = hx.FakeFS(files)
    got = sq.expand_saved_queries("/z", "S note W #x {q0} G file")
    if not present:
        if got is not None:
            return V(False)

        class _S:
            zdir = "/z"
        try:
            ex.execute_with_session(_S(), "S note W #x {q0} G file")
            return V(False)
        except RuntimeError:
            return V(True)
    # the expansion is complete (no reference left), keeps the surrounding clauses, and carries the chain's words in
    # order; where it puts parentheses is its own business (the MEANING is decided by the z3 part of the check)
    want_words = ["#x"] + ["#t%d" % k for k in range(depth)] + W_WORDS[wi].replace("(", "").replace(")", "").split(" ")
    if got is None or "{" in got or not got.startswith("S note W #x ") or not got.endswith(" G file"):
        return V(False)
    got_words = got[len("S note W "):-len(" G file")].replace("(", "").replace(")", "").split(" ")
    return V(got_words == want_words)
