"""C04: abstract SWOG queries, their rendering into skeletons with holes, and the expected Query structure
(the oracle is the abstract query itself).  No zorg module is patched here."""
import datetime as dt
import itertools
import random

from vlib.skel import Hole
from harness.c01_common import val, pick  # noqa: F401

TODAY = dt.date(2024, 5, 31)          # a month end: calendar-month arithmetic clamps
NAME_MENU = ("a", "b1", "Zz9", "a_b", "x2")        # identifiers that lex as ID in the query lexer
KEY_MENU = ("k", "due", "LID", "p_1")
TEXT_MENU = ("foo", "Foo", "a_b", "F00")
KINDCH = "-ox~<>"
KIND_NAME = {"-": "BASIC", "o": "OPEN_TODO", "x": "CLOSED_TODO", "~": "CANCELED_TODO", "<": "BLOCKED_TODO", ">": "PARENT_TODO"}
SELECTS = [("note", "NOTE"), ("file", "FILE"), ("#", "AREA"), ("@", "CONTEXT"), ("%", "PERSON"), ("+", "PROJECT"), ("prop", "PROPERTY"),
           ("links", "LINKS")]
ORDERS = ["alpha", "create", "modify", "priority", "type", "none"]
ORDER_NAME = {"alpha": "ALPHA", "create": "CREATE_DATE", "modify": "MODIFY_DATE", "priority": "PRIORITY", "type": "NOTE_TYPE", "none": "NONE"}
GROUPS = ["file", "section", "type", "priority", "none", "@", "#", "%", "+"]
GROUP_NAME = {"file": "FILE", "section": "SECTION", "type": "NOTE_TYPE", "priority": "PRIORITY", "@": "CONTEXT", "#": "AREA", "%": "PERSON",
              "+": "PROJECT"}
DEFAULT_ORDER = ("NOTE_TYPE", "PRIORITY", "MODIFY_DATE", "CREATE_DATE")


# ------------------------------------------------------------------ atoms
class Atom:
    """kind: kinds | prio | tag | create | modify | prop | desc | file | link | sub
       parts(): text parts (str | Hole);  contribute(exp, values): adds its meaning to the expected and-filter dict"""

    def __init__(self, kind, **kw):
        self.kind = kind
        self.__dict__.update(kw)

    def parts(self):
        k = self.kind
        if k == "kinds":
            return [self.chars]
        if k == "prio":
            return [self.start] + (["-", self.end] if self.end is not None else [])
        if k == "tag":
            return (["!"] if self.neg else []) + [self.sym, self.name]
        if k in ("create", "modify"):
            return [self.head] + ([self.tail] if self.tail is not None else [])
        if k == "prop":
            return (["!"] if self.neg else []) + [self.key, ":"] + ([self.op] if self.op else []) + [self.value]
        if k == "desc":
            return (["!"] if self.neg else []) + (["c"] if self.cs else []) + [self.quote, self.text, self.quote]
        if k == "file":
            return (["!"] if self.neg else []) + ["f="] + list(self.glob)
        if k == "link":
            return (["!"] if self.neg else []) + ["[["] + list(self.name) + ["]]"]
        if k == "sub":
            return ["("] + self.tree.parts() + [")"]
        raise ValueError(k)


class Tree:
    """ands: list of lists of atoms (alternatives separated by ' | ')"""

    def __init__(self, ands):
        self.ands = ands

    def parts(self):
        out = []
        for i, group in enumerate(self.ands):
            if i:
                out += [" ", "|", " "]
            for j, a in enumerate(group):
                if j:
                    out += [" "]
                out += a.parts()
        return out


class QuerySpec:
    def __init__(self, name, select=None, tree=None, order=None, group=None, og_first="O"):
        self.name, self.select, self.tree, self.order, self.group, self.og_first = name, select, tree, order, group, og_first

    def parts(self):
        out = []
        if self.select is not None:
            out += ["S", " "] + list(self.select[0])
        if self.tree is not None:
            out += ([" "] if out else []) + ["W", " "] + self.tree.parts()
        clauses = []
        if self.order is not None:
            clauses.append(("O", self.order))
        if self.group is not None:
            clauses.append(("G", self.group))
        if self.og_first == "G":
            clauses.reverse()
        for letter, items in clauses:
            out += [" ", letter]
            for it in items:
                out += [" ", it]
        return out

    def holes(self):
        return [p for p in self.parts() if isinstance(p, Hole)]


# ------------------------------------------------------------------ dates (oracle side)
def add_months(d, n):
    """calendar months with end-of-month clamping"""
    m0 = d.year * 12 + (d.month - 1) + n
    y, m = m0 // 12, m0 % 12 + 1
    last = [31, 29 if (y % 4 == 0 and (y % 100 != 0 or y % 400 == 0)) else 28, 31, 30, 31, 30, 31, 31, 30, 31, 30, 31][m - 1]
    return dt.date(y, m, min(d.day, last))


def add_years(d, n):
    y = d.year + n
    last = 29 if (y % 4 == 0 and (y % 100 != 0 or y % 400 == 0)) else 28
    return dt.date(y, d.month, min(d.day, last) if d.month == 2 else d.day)


# clocks of the two-compilations-in-one-process kernel: a month end, a leap day, a year end, a plain day
DAYS = (TODAY, dt.date(2024, 2, 29), dt.date(2023, 12, 31), dt.date(2025, 3, 14))


def date_of(spec, today=None):
    """absolute YYMMDD / YYYY-MM-DD, or [-]N(d|m|y) relative to TODAY; a leading minus means the past"""
    TODAY = today or globals()["TODAY"]
    if len(spec) == 6 and spec.isdigit():
        return dt.date(2000 + int(spec[0:2]), int(spec[2:4]), int(spec[4:6]))
    if len(spec) == 10 and spec[4] == "-":
        return dt.date(int(spec[0:4]), int(spec[5:7]), int(spec[8:10]))
    neg = spec.startswith("-")
    body = spec[1:] if neg else spec
    n, unit = int(body[:-1]), body[-1].lower()
    n = -n if neg else n
    if unit == "d":
        return TODAY + dt.timedelta(days=n)
    if unit == "m":
        return add_months(TODAY, n)
    return add_years(TODAY, n)


def is_date_like(v):
    if len(v) == 6 and v.isdigit():
        return True
    if len(v) == 10 and v[4] == "-" and v[7] == "-" and (v[:4] + v[5:7] + v[8:]).isdigit():
        return True
    b = v[1:] if v.startswith("-") else v
    return len(b) > 1 and b[:-1].isdigit() and b[-1].lower() in "dmy"


# ------------------------------------------------------------------ oracle
def empty_and():
    return {"kinds": set(), "priorities": set(), "areas": set(), "contexts": set(), "people": set(), "projects": set(),
            "create": set(), "modify": set(), "props": set(), "descs": set(), "files": set(), "links": set(), "subs": []}


def expect_tree(tree, values):
    out = []
    for group in tree.ands:
        e = empty_and()
        for a in group:
            k = a.kind
            if k == "kinds":
                for ch in a.chars:
                    e["kinds"].add(KIND_NAME[ch])
            elif k == "prio":
                lo = int(val(a.start, values)[1])
                hi = int(a.end) if a.end is not None else lo
                for n in range(lo, hi + 1):
                    e["priorities"].add("P%d" % n)
            elif k == "tag":
                attr = {"#": "areas", "@": "contexts", "%": "people", "+": "projects"}[a.sym]
                e[attr].add(("-" if a.neg else "") + val(a.name, values))
            elif k in ("create", "modify"):
                start = date_of(val(a.head, values)[1:])
                end = date_of(val(a.tail, values)[1:]) if a.tail is not None else None
                e[k].add((start, end))
            elif k == "prop":
                v = val(a.value, values)
                if v == "*" and not a.op:
                    e["props"].add((val(a.key, values), "", "EXISTS", "-", a.neg))       # (no value: its type is immaterial)
                else:
                    op = {"": "EQ", "<": "LT", "<=": "LE", ">": "GT", ">=": "GE"}[a.op]
                    vt = "DATE" if is_date_like(v) else ("INTEGER" if v.isdigit() else "STRING")
                    e["props"].add((val(a.key, values), v, op, vt, a.neg))
            elif k == "desc":
                e["descs"].add((val(a.text, values), True if a.cs else None, "NOT_CONTAINS" if a.neg else "CONTAINS"))
            elif k == "file":
                g = "".join(val(p, values) for p in a.glob)
                e["files"].add((g if g.endswith("*") else g + ".zo", a.neg))
            elif k == "link":
                e["links"].add(("".join(val(p, values) for p in a.name), a.neg))
            elif k == "sub":
                e["subs"].append(expect_tree(a.tree, values))
        out.append(e)
    return out


def view_and(f):
    return {"kinds": {t.name for t in f.allowed_note_types}, "priorities": set(f.priorities), "areas": set(f.areas),
            "contexts": set(f.contexts), "people": set(f.people), "projects": set(f.projects),
            "create": {(r.start, r.end) for r in f.create_date_ranges}, "modify": {(r.start, r.end) for r in f.modify_date_ranges},
            "props": {(p.key, p.value, p.op.name, "-" if p.op.name == "EXISTS" else p.value_type.name, p.negated)
                      for p in f.property_filters},
            "descs": {(d.value, d.case_sensitive, d.op.name) for d in f.desc_filters},
            "files": {(x.path_glob, x.negated) for x in f.file_filters}, "links": {(x.link, x.negated) for x in f.link_filters},
            "subs": [[view_and(g) for g in o.and_filters] for o in f.or_filters]}


def view_query(q):
    from zorg.domain.types import SelectAggregation, SelectPropertyValues

    def sel(s):
        if isinstance(s, SelectAggregation):
            return ("count", sel(s.select_type))
        if isinstance(s, SelectPropertyValues):
            return ("propvalues", s.key)
        return s.name
    return {"select": sel(q.select), "where": None if q.where is None else [view_and(f) for f in q.where.and_filters],
            "order": tuple(o.name for o in q.order_by), "group": tuple(g.name for g in q.group_by)}


def expect_query(spec, values):
    if spec.select is None:
        sel = "NOTE"
    else:
        sel = spec.select[1]
        if isinstance(sel, tuple) and sel[0] == "propvalues":
            sel = ("propvalues", val(sel[1], values))
        elif isinstance(sel, tuple) and sel[0] == "count" and isinstance(sel[1], tuple):
            sel = ("count", ("propvalues", val(sel[1][1], values)))
    return {"select": sel, "where": None if spec.tree is None else expect_tree(spec.tree, values),
            "order": DEFAULT_ORDER if spec.order is None else tuple(ORDER_NAME[o] for o in spec.order),
            "group": tuple() if spec.group is None else tuple(GROUP_NAME[g] for g in spec.group if g != "none")}


# ------------------------------------------------------------------ skeleton set
def H(name, default, kind):
    return Hole(name, default, kind)


def tag(sym, hole=None, neg=False, lit="t1"):
    return Atom("tag", sym=sym, name=hole if hole is not None else lit, neg=neg)


def all_specs(tier, seed):
    out = []
    W = lambda *atoms: Tree([list(atoms)])  # noqa: E731
    base = lambda: W(Atom("kinds", chars="o"))  # noqa: E731
    # F1: select forms
    for txt, nm in SELECTS:
        out.append(QuerySpec("sel-" + nm, select=([txt], nm), tree=base()))
        out.append(QuerySpec("sel-count-" + nm, select=(["count", "(", txt, ")"], ("count", nm)), tree=base()))
    out.append(QuerySpec("sel-propvalues", select=(["prop", ":", H("k", "kk", "key")], ("propvalues", H("k", "kk", "key"))), tree=base()))
    out.append(QuerySpec("sel-only", select=(["+"], "PROJECT")))
    out.append(QuerySpec("sel-only-order", select=(["prop"], "PROPERTY"), order=["alpha"]))
    # F2: atoms
    for sym in "#@%+":
        for neg in (False, True):
            out.append(QuerySpec("tag-%s-%s" % ("ac%p"["#@%+".index(sym)] if False else {"#": "area", "@": "ctx", "%": "person", "+": "proj"}[sym],
                                                "neg" if neg else "pos"), tree=W(tag(sym, H("t", "tn", "name"), neg))))
    for end in [None] + list("123456789"):
        out.append(QuerySpec("prio-%s" % (end or "single"), tree=W(Atom("prio", start=H("p", "P1", "prio"), end=end))))
    kind_strings = [s for n in (1, 2, 3) for s in map("".join, itertools.product(KINDCH, repeat=n))
                    if not any(a in "ox" and b in "ox" for a, b in zip(s, s[1:]))]
    rnd = random.Random(7 + seed)
    pick_k = kind_strings if tier != "quick" else (kind_strings[:6] + rnd.sample(kind_strings[6:], 18))
    for s in pick_k:
        out.append(QuerySpec("kinds-%s" % "".join("%02x" % ord(c) for c in s), tree=W(Atom("kinds", chars=s))))
    for which, mark in (("create", "^"), ("modify", "$")):
        for tail in (False, True):
            out.append(QuerySpec("%s-abs-%s" % (which, "range" if tail else "single"),
                                 tree=W(Atom(which, head=H("h", mark + "240408", "abs" + mark), tail=H("u", ":240509", "abs:") if tail else None))))
            out.append(QuerySpec("%s-rel-%s" % (which, "range" if tail else "single"),
                                 tree=W(Atom(which, head=H("h", mark + "-1d", "rel" + mark), tail=H("u", ":0d", "rel:") if tail else None))))
        out.append(QuerySpec("%s-mixed" % which, tree=W(Atom(which, head=H("h", mark + "240408", "abs" + mark), tail=H("u", ":0d", "rel:")))))
    for op in ("", "<", "<=", ">", ">="):
        for neg in (False, True):
            for vk, dflt in (("vstr", "vv"), ("vint", "77"), ("vdate", "2024-03-13")):
                if vk == "vint" and False:
                    continue
                out.append(QuerySpec("prop-%s-%s-%s" % ({"": "eq", "<": "lt", "<=": "le", ">": "gt", ">=": "ge"}[op], "neg" if neg else "pos", vk),
                                     tree=W(Atom("prop", key=H("k", "kk", "key"), op=op, value=H("v", dflt, vk), neg=neg))))
    for neg in (False, True):
        out.append(QuerySpec("prop-exists-%s" % ("neg" if neg else "pos"), tree=W(Atom("prop", key=H("k", "kk", "key"), op="", value="*", neg=neg))))
    for quote in ("'", '"'):
        for neg in (False, True):
            for cs in (False, True):
                out.append(QuerySpec("desc-%s-%s-%s" % ("sq" if quote == "'" else "dq", "neg" if neg else "pos", "cs" if cs else "smart"),
                                     tree=W(Atom("desc", quote=quote, text=H("x", "foo", "text"), neg=neg, cs=cs))))
    for neg in (False, True):
        for shape in (["NAME"], ["*", "NAME"], ["NAME", "*"], ["*", "NAME", "*"], ["d", "/", "NAME"], ["*", "_", "NAME"]):
            g = [H("n", "nm", "name") if p == "NAME" else p for p in shape]
            out.append(QuerySpec("file-%s-%s" % ("neg" if neg else "pos", "".join({"NAME": "N", "*": "s", "/": "d", "_": "u"}.get(p, p) for p in shape)),
                                 tree=W(Atom("file", glob=g, neg=neg))))
        for shape in (["NAME"], ["d", "/", "NAME"]):
            g = [H("n", "nm", "name") if p == "NAME" else p for p in shape]
            out.append(QuerySpec("link-%s-%d" % ("neg" if neg else "pos", len(shape)), tree=W(Atom("link", name=g, neg=neg))))
    # F3: trees - pooling inside a group, alternatives, nesting
    a, b, c_, d = tag("#", lit="ta"), tag("@", lit="tb"), tag("+", lit="tc"), tag("%", lit="td")
    pool = [Atom("kinds", chars="o"), Atom("kinds", chars="x~"), Atom("prio", start="P1", end=None), Atom("prio", start="P3", end="5"),
            tag("#", H("t", "tn", "name")), tag("#", lit="t2", neg=True)]
    out.append(QuerySpec("tree-pool", tree=Tree([pool])))
    out.append(QuerySpec("tree-or", tree=Tree([[a, b], [c_], [d, Atom("kinds", chars="-")]])))
    out.append(QuerySpec("tree-nest1", tree=Tree([[a, Atom("sub", tree=Tree([[b], [c_]]))]])))
    out.append(QuerySpec("tree-nest1-first", tree=Tree([[Atom("sub", tree=Tree([[b], [c_]])), a]])))
    out.append(QuerySpec("tree-nest2", tree=Tree([[a, Atom("sub", tree=Tree([[Atom("sub", tree=Tree([[b], [c_]])), d], [tag("@", H("t", "tn", "name"))]]))]])))
    out.append(QuerySpec("tree-nest-two-subs", tree=Tree([[Atom("sub", tree=Tree([[a], [b]])), Atom("sub", tree=Tree([[c_], [d]]))], [a]])))
    out.append(QuerySpec("tree-nest3", tree=Tree([[Atom("kinds", chars="o"), Atom("sub", tree=Tree([[Atom("sub", tree=Tree([[Atom("sub", tree=Tree([[a], [b]])), c_]])), d]]))]])))
    if tier != "quick":
        for i in range(60):
            out.append(QuerySpec("tree-rnd-%d" % i, tree=random_tree(random.Random(100 * seed + i), 0)))
    # F4: clause orders, order / group lists
    for og in ("O", "G"):
        out.append(QuerySpec("og-%s-both" % og, select=(["note"], "NOTE"), tree=base(), order=["priority", "create", "modify"],
                             group=["file", "section"], og_first=og))
    for o in ORDERS:
        out.append(QuerySpec("order-" + o, tree=base(), order=[o]))
    out.append(QuerySpec("order-3", tree=base(), order=["type", "alpha", "none"]))
    for g in GROUPS:
        out.append(QuerySpec("group-" + {"@": "ctx", "#": "area", "%": "person", "+": "proj"}.get(g, g), tree=base(), group=[g]))
    out.append(QuerySpec("group-4", tree=base(), group=["type", "#", "+", "file"]))
    out.append(QuerySpec("group-only", tree=base(), group=["priority", "@"]))
    return out


def random_tree(rnd, depth):
    ands = []
    for _ in range(rnd.randint(1, 3)):
        group = []
        for _ in range(rnd.randint(1, 3)):
            r = rnd.random()
            if r < 0.3 and depth < 3:
                group.append(Atom("sub", tree=random_tree(rnd, depth + 1)))
            elif r < 0.5:
                group.append(Atom("kinds", chars=rnd.choice(["o", "x", "-", "~<", ">"])))
            elif r < 0.65:
                group.append(Atom("prio", start="P%d" % rnd.randint(0, 4), end=rnd.choice([None, "5", "9"])))
            else:
                group.append(tag(rnd.choice("#@%+"), lit=rnd.choice(["ta", "tb", "tc"]), neg=rnd.random() < 0.3))
        ands.append(group)
    return Tree(ands)


# ------------------------------------------------------------------ hole classes
ABS_DATES = ("240408", "240509", "241231", "250101", "000101", "690131", "991231")
REL_SPECS = ("0d", "-1d", "7d", "1m", "-1m", "3m", "-13m", "9m", "1y", "-4y", "20y", "999d")
VSTR = ("vv", "abc", "a1", "X_y")
VINT = ("77", "0", "007", "123456789")
VDATE = ("2024-03-13", "2025-01-01", "2023-12-31")      # (short and relative date values do not lex as a property value)


def wrapper_args(h):
    a, k = h.name, h.kind
    menus = {"name": "NAME_MENU", "key": "KEY_MENU", "text": "TEXT_MENU", "vstr": "VSTR", "vint": "VINT", "vdate": "VDATE"}
    if k in menus:
        return [(a, "int")], ["0 <= %s < len(c4.%s)" % (a, menus[k])], "c4.pick(c4.%s, %s)" % (menus[k], a)
    if k == "prio":      # the start digit of Pn is symbolic
        return [(a, "str")], ["len(%s) == 1 and %s in \"0123456789\"" % (a, a)], '"P" + %s' % a
    if k.startswith("abs"):
        return [(a, "int")], ["0 <= %s < len(c4.ABS_DATES)" % a], '"%s" + c4.pick(c4.ABS_DATES, %s)' % (k[3:], a)
    if k.startswith("rel"):
        return [(a, "int")], ["0 <= %s < len(c4.REL_SPECS)" % a], '"%s" + c4.pick(c4.REL_SPECS, %s)' % (k[3:], a)
    raise ValueError(k)
