"""C05 — After `db create` index and files agree; files change only to gain ZIDs.   (DESIGN.md §5)

CrossHair conditions (harness/c05_h.py): one per page structure, over solver-chosen items (kinds,
priorities, long dates, irregular spacing, multi-line), a second item and the stored next-ID state,
through the real SQLRepo.add_file/_add_zids and the registered NewZorgNotesEvent write-back, judged
against the statement; kernels with symbolic strings for the first-line rewrite.
Replay: the whole public path - real files, `db create`, SQLite rows vs recompiled files, `db
create` again and `db reindex`.
"""
import os as _os
_os.environ["XH_NO_PATCH"] = "1"   # this process replays on the real code: never patch zorg here

import json
import os
import sys

from vlib import xh, zreal
from vlib.driver import Report, handle_xh, known_findings
from harness import c05_common as cm

HDIR = os.path.dirname(os.path.abspath(__file__))
H = os.path.join(HDIR, "c05_h.py")


def replay_create(args):
    from freezegun import freeze_time
    struct_i, a_i, a_cont, b_i, ids_i = args
    old_lines = cm.build(struct_i, a_i, a_cont, b_i)
    with zreal.TempZdir("c05r") as z, freeze_time(cm.TODAY.strftime("%Y-%m-%d") + " 10:00:00"):
        (z / "p.zo").write_text("\n".join(old_lines))
        if cm.NEXT_IDS[ids_i] is not None:
            (z / ".zorg").mkdir()
            (z / ".zorg" / "next_ids.json").write_text(json.dumps(cm.NEXT_IDS[ids_i]))
        page0, views0 = zreal.compile_views(z, "p.zo")
        had_zid = [v["line_no"] for v in views0 if v["zid"]]
        zreal.create_db(z)
        new_text = (z / "p.zo").read_text()
        mem = zreal.db_note_views(z)
        _, rec = zreal.compile_views(z, "p.zo")
        zreal.reindex(z)
        text2 = (z / "p.zo").read_text()
        mem2 = zreal.db_note_views(z)
        zreal.create_db_subprocess(z)      # (a second create in this process would hit the cached engine)
        text3 = (z / "p.zo").read_text()
        mem3 = zreal.db_note_views(z)
    second = dict(events=0, changed=(text2 != new_text or mem2 != mem or text3 != new_text or mem3 != mem))
    ob = dict(old_lines=old_lines, new_lines=new_text.split("\n"), mem=mem, recompiled=rec, second=second,
              had_zid=had_zid)
    ok, why = cm.judge(ob)
    return (not ok), {"summary": "db create on page %r: %s" % ("\n".join(old_lines), why),
                      "file_before": "\n".join(old_lines), "file_after": new_text, "index": mem, "why": why}


def replay_suffix(args):
    from freezegun import freeze_time
    c, carry = args
    stored = (c + "z") if carry else ("0" + c)
    old_lines = cm.build(0, 0, 0, 1)
    with zreal.TempZdir("c05s") as z, freeze_time(cm.TODAY.strftime("%Y-%m-%d") + " 10:00:00"):
        (z / "p.zo").write_text("\n".join(old_lines))
        (z / ".zorg").mkdir()
        (z / ".zorg" / "next_ids.json").write_text(json.dumps({"240510": stored}))
        zreal.create_db(z)
        new_text = (z / "p.zo").read_text()
        mem = zreal.db_note_views(z)
        _, rec = zreal.compile_views(z, "p.zo")
    bad = mem != rec or any(not r["zid"] for r in rec)
    return bad, {"summary": "with next suffix %r stored for today, db create writes %r; index ZIDs %r, recompiled ZIDs %r" % (
        stored, new_text, [m["zid"] for m in mem], [r["zid"] for r in rec])}


def replay_kernel(name, args):
    from zorg.service import handlers as hd
    if name == "k_zid_line":
        ind, kind_i, pd, dated, w, more = args
        kind_i = [0, 1, 5][kind_i]
        pdv = [-1, 0, 9][pd]
        head = " " * ind + "-ox~<>"[kind_i] + " " + ("P%d " % pdv if pdv >= 0 else "")
        rest = ["a", "a1", "1-a", "240105", "2024-01-0"][w] + (" b  c" if more else "")
        line = head + ("2024-01-03 " if dated else "") + rest
        got = hd._add_zid_to_line("240103#00", line)
        want = head + "240103#00 " + rest
        return got != want, {"summary": "first line %r becomes %r, expected %r" % (line, got, want)}
    if name == "k_long_date_word":
        from zorg.shared import dates as zdt
        line = "- " + args[0] + " x"
        got = hd._add_zid_to_line("240103#00", line)
        file_drops = got == "- 240103#00 x"
        return file_drops != zdt.is_long_date_spec(args[0]), {
            "summary": "first word %r: file side drops it=%s (line becomes %r), index side drops it=%s" % (
                args[0], file_drops, got, zdt.is_long_date_spec(args[0]))}
    return False, {"summary": "no replayer for " + name}


def replayer(name, args, kwargs, meta):
    if name == "create":
        return replay_create(args)
    if name == "create_suffix":
        return replay_suffix(args)
    if name == "kf_moddate_no_zid":
        return replay_create((args[0], 9, args[1], -1, args[2]))
    return replay_kernel(name, args)


def main():
    tier = sys.argv[1] if len(sys.argv) > 1 else "quick"
    seed = int(sys.argv[2]) if len(sys.argv) > 2 else 0
    rep = Report("C05", tier, seed)
    rep.describe(
        explanation=(
            "CrossHair/z3 symbolic execution of the real SQLRepo.add_file -> _add_zids (ZIDManager) and the registered "
            "NewZorgNotesEvent handler (add_zids_to_notes_in_file -> _update_zo_file -> _add_zid_to_line, _pop_line_before_zid) "
            "over solver-chosen page scenarios; the page is compiled from the scenario text and the rewritten file is "
            "recompiled with the real compiler; oracle = the statement: every note has a distinct ZID carrying its creation "
            "date, in-memory (indexed) notes == recompiled notes field by field, the file differs only in first lines of notes "
            "that lacked a ZID (ZID after the prefix, long date dropped), the hash map is refreshed, a second run changes nothing."),
        functions=["zorg.storage.sql._repo.SQLRepo.add_file/_record_seen_page/_add_zids", "ZIDManager.get_next/_get_next_id",
                   "zorg.service.handlers.add_zids_to_notes_in_file/_update_zo_file/_add_zid_to_line/_pop_line_before_zid/"
                   "_get_file_hash_map/_write_file_hash_to_disk", "zorg.shared.dates.is_long_date_spec",
                   "ZorgFileCompiler (concretely, before and after)"],
        stubs=["in-memory FS, json shim, _hash_file = identity, clock = 2024-05-10",
               "SQL session and PageConverter stubbed: the ORM/SQLite round trip of stored notes is NOT claimed (replay only)"],
        bounds=["%d page structures x %d item forms x single/multi-line x optional second item x %d next-ID states" % (
            len(cm.STRUCTS), len(cm.ITEMS), len(cm.NEXT_IDS)),
            "kernels: indentation 0-2, 6 kinds, priority none/P0/P9, with/without long date, first word <= 3 symbolic "
            "characters; any 10-character first word over digits and '-'"],
        outside=["SQL rows == compiled notes (ORM/SQLite): exercised concretely in replays only",
                 "several files / sub-directory traversal order; files with more than ~10 lines",
                 "ZIDs already present in files for a date whose counter is missing from next_ids.json"])
    kf_active, _ = known_findings("C05")
    kf_ids = {e["id"] for e in kf_active}
    T = 160 if tier == "quick" else 480
    env0 = {"XH_KNOWN": ",".join(sorted(kf_ids)), "XH_MENUS": "thorough" if tier != "quick" else "quick"}
    conds = []
    for i in range(len(cm.STRUCTS)):
        for j in range(len(cm.NEXT_IDS)):
            conds.append(xh.Cond(H, "create", timeout=T, env=dict(env0, XH_STRUCT=i, XH_IDS=j),
                                 meta={"variant": "struct%d-ids%d" % (i, j), "family": "create",
                                       "bound": "structure %r, next_ids %r" % (cm.STRUCTS[i], cm.NEXT_IDS[j])}))
    if "KF-C05-1" in kf_ids:
        conds.append(xh.Cond(H, "kf_moddate_no_zid", timeout=T, env=env0,
                             meta={"family": "known", "known_finding": "KF-C05-1"}))
    for nm in ("k_zid_line", "k_long_date_word", "create_suffix"):
        conds.append(xh.Cond(H, nm, timeout=T, env=env0, meta={"family": "kernel"}))
    conds.append(xh.Cond(H, "create", timeout=30, twin=True, env=dict(env0, XH_STRUCT=0), meta={"variant": "struct0", "family": "twin"}))
    conds.append(xh.Cond(H, "k_zid_line", timeout=30, twin=True, env=env0, meta={"family": "twin"}))
    results = xh.run_all(conds)
    handle_xh(rep, results, replayer)
    rep.sample({"page": cm.build(2, 8, 1, 3), "next_ids": cm.NEXT_IDS[2]})
    sys.exit(rep.finish())


if __name__ == "__main__":
    main()
