"""C07 CrossHair harness: ZID successor chain, allocation step, recognition kernels.

Real code under symbolic execution: zorg.storage.sql._zid_manager._get_next_id, ZIDManager.get_next
(+ __init__, _next_id_map, _write_to_disk), zorg.shared.dates.is_zid / is_short_date_spec.
Stubs: FakePath/FakeFS for the zettel dir, JsonShim for json (identity on dicts).
"""
import datetime as dt
import os

from vlib import hx
from vlib.hx import V
from zorg.storage.sql import _zid_manager as zm
from zorg.shared import dates as zdt

hx.stub_loggers()
hx.put(zm, "json", hx.JsonShim)
KNOWN = set(x for x in os.environ.get("XH_KNOWN", "").split(",") if x)

# Spec alphabet, written down independently of _UNSUPPORTED_ZID_CHARS: the 62 ASCII alphanumerics
# minus the 11 look-alike characters; 51 symbols, so 51^2 + 51^3 = 135,252 suffixes (the number in
# the property statement).
EXCLUDED = "IOQSgijlpqy"
ALPHA = "".join(ch for ch in
                "0123456789ABCDEFGHIJKLMNOPQRSTUVWXYZabcdefghijklmnopqrstuvwxyz" if ch not in EXCLUDED)
assert len(ALPHA) == 51 and ALPHA[0] == "0" and ALPHA[-1] == "z"


def succ(ch: str) -> str:
    return ALPHA[ALPHA.index(ch) + 1]


# ------------------------------------------------------------------ successor lemmas, 3 characters
def l3_last(a: str, b: str, c: str) -> bool:
    """
    pre: len(a) == 1 and len(b) == 1 and len(c) == 1
    pre: a in ALPHA and b in ALPHA and c in ALPHA and c != "z"
    post: _
    """
    return V(zm._get_next_id(a + b + c) == a + b + succ(c))


def l3_mid(a: str, b: str) -> bool:
    """
    pre: len(a) == 1 and len(b) == 1
    pre: a in ALPHA and b in ALPHA and b != "z"
    post: _
    """
    return V(zm._get_next_id(a + b + "z") == a + succ(b) + "0")


def l3_first(a: str) -> bool:
    """
    pre: len(a) == 1
    pre: a in ALPHA and a != "z"
    post: _
    """
    return V(zm._get_next_id(a + "zz") == succ(a) + "00")


def l3_exhausted(a: str, b: str, c: str) -> bool:
    """
    pre: len(a) == 1 and len(b) == 1 and len(c) == 1
    pre: a in ALPHA and b in ALPHA and c in ALPHA
    post: _
    """
    # the out-of-IDs error is raised for zzz and for nothing else
    try:
        zm._get_next_id(a + b + c)
        raised = False
    except RuntimeError as e:
        raised = "Ran out of zorg IDs" in str(e)
    return V(raised == (a == "z" and b == "z" and c == "z"))


# ------------------------------------------------------------------ successor lemmas, 2 characters
def l2_last(a: str, b: str) -> bool:
    """
    pre: len(a) == 1 and len(b) == 1
    pre: a in ALPHA and b in ALPHA and b != "z"
    post: _
    """
    return V(zm._get_next_id(a + b) == a + succ(b))


def l2_first(a: str) -> bool:
    """
    pre: len(a) == 1
    pre: a in ALPHA and a != "z"
    post: _
    """
    return V(zm._get_next_id(a + "z") == succ(a) + "0")


def l2_extend(a: str, b: str) -> bool:
    """
    pre: len(a) == 1 and len(b) == 1
    pre: a in ALPHA and b in ALPHA
    post: _
    """
    # zz -> 000 (extension to three characters) and nothing else changes length; never raises
    n = zm._get_next_id(a + b)
    if a == "z" and b == "z":
        return V(n == "000")
    return V(len(n) == 2)


# ------------------------------------------------------------------ allocation step
DATES = [dt.date(2024, 5, 10), dt.date(2024, 5, 11), dt.date(1999, 12, 31)]
KEYS = ["240510", "240511", "991231"]


def _mk_fs(k1: int, v1: str, k2: int, v2: str):
    fs = hx.FakeFS()
    stored = {}
    if k1 >= 0:
        stored[KEYS[k1]] = v1
    if k2 >= 0 and k2 != k1:
        stored[KEYS[k2]] = v2
    if stored:
        fs.files["/z/.zorg/next_ids.json"] = hx._JsonBlob(dict(stored))
    return fs, stored


MENU = ["00", "0z", "9Z", "zz", "000", "0zz", "Hzz", "zzx", "zzy"]


def alloc_step_sym(i: int, c: str, other: bool) -> bool:
    """
    pre: len(MENU) <= i < len(MENU) + 2
    pre: len(c) == 1 and c in ALPHA and c != "z"
    post: _
    """
    return _alloc_body(i, c, True, other, 0)


def alloc_step(i: int, c: str, present: bool, other: bool, d: int) -> bool:
    """
    pre: 0 <= d <= 2 and 0 <= i < len(MENU)
    pre: c == "0"
    post: _
    """
    return _alloc_body(i, c, present, other, d)


def _alloc_body(i, c, present, other, d):
    # stored suffix for the requested date: a menu of carry/extension shapes, or one symbolic
    # character in a 2- or 3-character suffix (or no entry); optionally another date's entry.
    # get_next uses _get_next_id's result verbatim, and that function is covered for ALL suffixes
    # by the lemmas l2_*/l3_*.
    v1 = MENU[i] if i < len(MENU) else ("4" + c if i == len(MENU) else "z" + c + "z")
    k1 = d if present else -1
    k2 = (d + 1) % 3 if other else -1
    fs, stored = _mk_fs(k1, v1, k2, "7z")
    man = zm.ZIDManager(hx.FakePath("/z", fs))
    got = man.get_next(DATES[d])
    key = KEYS[d]
    cur = stored.get(key, "00")
    # 1. hands out date#current
    if got != key + "#" + cur:
        return V(False)
    # 2. stored map afterwards: only that date advanced, to the real successor of cur
    after = fs.files["/z/.zorg/next_ids.json"].obj
    expect = dict(stored)
    expect[key] = zm._get_next_id(cur)
    if after != expect:
        return V(False)
    # 3. restart: a new manager on the same directory continues from the stored successor
    if expect[key] == "zzz" and "KF-C07-1" in KNOWN:
        return True   # listed known finding (the last suffix is never handed out), see kf_last_suffix
    man2 = zm.ZIDManager(hx.FakePath("/z", fs))
    got2 = man2.get_next(DATES[d])
    return V(got2 == key + "#" + expect[key] and got2 != got)


def alloc_same_manager(v1: str) -> bool:
    """
    pre: 2 <= len(v1) <= 3
    pre: all(ch in ALPHA for ch in v1)
    pre: v1 != "zzz" and v1 != "zzy" and v1 != "zzx" and v1 != "zzw"
    post: _
    """
    # three consecutive allocations from ONE manager object are pairwise different and each is the
    # successor of the previous one (no stale in-memory cache)
    fs, stored = _mk_fs(0, v1, -1, "00")
    man = zm.ZIDManager(hx.FakePath("/z", fs))
    a = man.get_next(DATES[0])
    b = man.get_next(DATES[0])
    c = man.get_next(DATES[0])
    n1 = zm._get_next_id(v1)
    n2 = zm._get_next_id(n1)
    return V(a == "240510#" + v1 and b == "240510#" + n1 and c == "240510#" + n2)


# ------------------------------------------------------------------ recognition kernels
def _digits(s: str) -> bool:
    return all("0" <= ch <= "9" for ch in s)


def is_zid_accepts_allocated(date: str, suf: str) -> bool:
    """
    pre: len(date) == 6 and _digits(date)
    pre: 2 <= len(suf) <= 3 and all(ch in ALPHA for ch in suf)
    post: _
    """
    # full product (bug hunting; exhausted only in the thorough tier if at all)
    return V(zdt.is_zid(date + "#" + suf))


def is_zid_accepts_any_date(date: str, three: bool) -> bool:
    """
    pre: len(date) == 6 and date.isdigit() and date.isascii()
    post: _
    """
    return V(zdt.is_zid(date + ("#000" if three else "#00")))


def is_zid_accepts_any_suffix(suf: str) -> bool:
    """
    pre: 2 <= len(suf) <= 3 and all(ch in ALPHA for ch in suf)
    post: _
    """
    return V(zdt.is_zid("240510#" + suf))


def is_zid_rejects_plain_words(w: str) -> bool:
    """
    pre: len(w) <= 10 and w.isascii()
    pre: "#" not in w
    post: _
    """
    # words without '#' (plain words, 6-digit dates, long dates) are never taken for a ZID
    return V(not zdt.is_zid(w))


def kf_last_suffix(d: int) -> bool:
    """
    pre: 0 <= d <= 2
    post: _
    """
    # "fails only after all 135,252 suffixes have been handed out": with zzz stored as the next
    # suffix, the allocation must hand out date#zzz (the 135,252nd) instead of failing.
    fs, stored = _mk_fs(d, "zzz", -1, "00")
    man = zm.ZIDManager(hx.FakePath("/z", fs))
    try:
        got = man.get_next(DATES[d])
    except RuntimeError:
        return V(False)
    return V(got == KEYS[d] + "#zzz")
