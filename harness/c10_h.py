"""C10 CrossHair harness: `note move` relocates exactly one note and loses nothing.

Real code under symbolic execution: zorg.service.note_utils._move_note, _to_done_note,
_add_hidden_metadata, _get_hidden_metadata_mutates, _note_body_has_tag;
zorg.storage.file.FileManager.add_note / delete_note; Note.to_string.
Stubs: in-memory FS behind c.prepend_zdir (FakePath), session.repo.get_note_by_zid returns the note
the index holds for the ZID (= the note compiled from the source page, computed with the real
compiler outside tracing), init_from_template recorded (creates the destination from a fixed
template text when the layout says a pattern matches).
The page layouts are solver-chosen indices into small menus (the parse of the resulting pages needs
concrete text); `k_*` kernels use truly symbolic line strings for the line arithmetic.
"""
import os
from pathlib import Path

import antlr4
from crosshair.tracers import NoTracing
from crosshair.core import deep_realize

from vlib import hx
from vlib.hx import V
from zorg.domain.models import Note, Page, TodoPayload
from zorg.domain.types import NoteType
from zorg.grammar.zorg_file.ZorgFileLexer import ZorgFileLexer
from zorg.grammar.zorg_file.ZorgFileParser import ZorgFileParser
from zorg.service import note_utils as nu
from zorg.service.compiler._file_compiler import ErrorManager, ZorgFileCompiler
from zorg.shared import common as c
from zorg.storage.file import _manager as fm

hx.stub_loggers()
KNOWN = set(x for x in os.environ.get("XH_KNOWN", "").split(",") if x)
FS = [None]
ZDIR = "/z"


def fake_prepend_zdir(zdir, path):
    p = str(path)
    if "." not in p.rsplit("/", 1)[-1]:
        p = p + ".zo"
    if not p.startswith(ZDIR + "/"):
        p = ZDIR + "/" + p
    return hx.FakePath(p, FS[0])


hx.put(c, "prepend_zdir", fake_prepend_zdir)
INIT_CALLS = []


def fake_init_from_template(zdir, tpm, new_path, **kw):
    INIT_CALLS.append(str(new_path))
    p = fake_prepend_zdir(zdir, new_path)
    if tpm.get("match") and not p.exists():
        p.write_text(TEMPLATE_TEXT)


hx.put(nu, "init_from_template", fake_init_from_template)


def compile_text(text, path):
    """the body of walk_zorg_page on an in-memory text (real lexer, parser, listener)"""
    page = Page(Path(path))
    lexer = ZorgFileLexer(antlr4.InputStream(text))
    lexer.removeErrorListeners()
    parser = ZorgFileParser(antlr4.CommonTokenStream(lexer))
    parser.removeErrorListeners()
    em = ErrorManager()
    parser.addErrorListener(em)
    tree = parser.prog()
    antlr4.ParseTreeWalker().walk(ZorgFileCompiler(page, em), tree)
    return page, list(em.errors)


class _Repo:
    def __init__(self, note):
        self.note = note

    def get_note_by_zid(self, zid):
        return self.note if (self.note is not None and self.note.zid == zid) else None


class _Session:
    def __init__(self, note):
        self.zdir = ZDIR
        self.repo = _Repo(note)


from harness.c10_common import *  # noqa: F401,F403  (layouts, judge)
from harness import c10_common as cm


def kf_excluded(src_i, dst_i):
    if "KF-C10-1" in KNOWN and src_i in (7,):
        return True
    return False


def run_move(src_i, form_i, dst_i, marker_i, tmpl):
    """returns a dict of concrete observations (everything realised), or None if the move failed"""
    src_lines, note_lines = build_src(src_i, form_i)
    src_text = "\n".join(src_lines)
    dst_same = DST_LAYOUTS[dst_i] == "SAME"
    dst_lines = None if (DST_LAYOUTS[dst_i] is None or dst_same) else list(DST_LAYOUTS[dst_i])
    fs = hx.FakeFS({ZDIR + "/src.zo": src_text})
    if dst_lines is not None:
        fs.files[ZDIR + "/dst.zo"] = "\n".join(dst_lines)
    FS[0] = fs
    with NoTracing():
        old_src_page, errs = compile_text(src_text, "src.zo")
        assert not errs, errs
        old_notes = list(old_src_page.notes)
        dst_valid = True
        if dst_lines is not None:
            old_dst_page, errs2 = compile_text("\n".join(dst_lines), "dst.zo")
            dst_valid = not errs2
            if dst_valid:
                old_notes += list(old_dst_page.notes)
        indexed = [n for n in old_src_page.notes if n.zid == Z1]
        assert len(indexed) == 1
        indexed = indexed[0]
    del INIT_CALLS[:]
    new_page = hx.FakePath(ZDIR + ("/src.zo" if dst_same else "/dst.zo"), fs)
    rc = nu._move_note(new_page=new_page, note_type=MARKERS[marker_i], session=_Session(indexed),
                       template_pattern_map={"match": tmpl}, zid=Z1)
    return dict(rc=rc, new_src_text=fs.files.get(ZDIR + "/src.zo"), new_dst_text=fs.files.get(ZDIR + "/dst.zo"),
                writes=len(fs.writes), src_lines=src_lines, note_lines=note_lines, dst_lines=dst_lines,
                dst_same=dst_same, dst_valid=dst_valid, old_notes=old_notes, indexed=indexed, marker=MARKERS[marker_i],
                init_calls=list(INIT_CALLS))


PIN_SRC = int(os.environ.get("XH_SRC", "-1"))


def move(src_i: int, form_i: int, dst_i: int, marker_i: int, tmpl: bool) -> bool:
    """
    pre: 0 <= src_i < len(SRC_LAYOUTS) and 0 <= form_i < len(NOTE_FORMS)
    pre: PIN_SRC < 0 or src_i == PIN_SRC
    pre: 0 <= dst_i < len(DST_LAYOUTS) and 0 <= marker_i < 3
    post: _
    """
    ob = run_move(src_i, form_i, dst_i, marker_i, tmpl)
    excluded = kf_excluded(src_i, dst_i)      # (evaluated while tracing: the arguments are symbolic)
    with NoTracing():
        ob = deep_realize(ob)
        if excluded:
            return True
        ok, _why = cm.judge(ob, compile_text)
    return V(ok)


# ------------------------------------------------------------------ kernels: truly symbolic lines
LINE_CHARS = "- a#"


MAXLEN = int(os.environ.get("XH_LEN", "2"))


def _line_ok(s):
    # empty, or up to 3 characters with at least one non-space (whitespace-only lines are outside
    # the bound: add_note treats them as the blank line it may replace)
    return len(s) <= MAXLEN and all(ch in LINE_CHARS for ch in s) and (s == "" or s.strip() != "")


def _line_ok2(s):
    return len(s) <= 2 and all(ch in LINE_CHARS for ch in s)


def k_add_note(l1: str, a: bool, b: bool, nl: bool) -> bool:
    """
    pre: _line_ok(l1)
    post: _
    """
    l0 = "- n" if a else "# h"
    l2 = "" if b else "x"
    # FileManager.add_note on an arbitrary 3-line page (with/without trailing newline): the page
    # afterwards is the old page with the note's line inserted once, nothing removed
    lines = [l0, l1, l2] + ([""] if nl else [])
    fs = hx.FakeFS({ZDIR + "/dst.zo": "\n".join(lines)})
    FS[0] = fs
    note = Note("240101#01 body", file_path=Path("src.zo"), line_no=3, zid=Z1)
    err = fm.FileManager(ZDIR).add_note(note, "dst.zo")
    if err is not None:
        return V(False)
    new = fs.files[ZDIR + "/dst.zo"].split("\n")
    text = "- 240101#01 body"
    for i in range(len(new)):
        if new[i] == text:
            rest = new[:i] + new[i + 1:]
            if rest in (lines, lines + [""], lines + ["", ""]):
                return V(True)
    return V(False)


def k_delete_note(l0: str, pos: int, two: bool) -> bool:
    """
    pre: _line_ok2(l0) and 0 <= pos <= 2
    post: _
    """
    l1 = "- 240101#02 see 240101#01 x"
    # FileManager.delete_note: removes exactly the note's lines wherever the note sits among two
    # arbitrary other lines
    body = "240101#01 body" + ("\n  more" if two else "")
    mine = ["- 240101#01 body"] + (["  more"] if two else [])
    others = [l0, l1]
    lines = others[:pos] + mine + others[pos:] + [""]
    fs = hx.FakeFS({ZDIR + "/src.zo": "\n".join(lines)})
    FS[0] = fs
    note = Note(body, file_path=Path("src.zo"), line_no=pos + 1, zid=Z1)
    err = fm.FileManager(ZDIR).delete_note(note)
    if err is not None:
        return V(False)
    return V(fs.files[ZDIR + "/src.zo"].split("\n") == others + [""])


def k_hidden_metadata(tag: str, word: str, punct: int) -> bool:
    """
    pre: 1 <= len(tag) <= 2 and all(ch in "a1" for ch in tag)
    pre: 1 <= len(word) <= 3 and all(ch in "a1#" for ch in word)
    pre: 0 <= punct <= 1
    post: _
    """
    # an inherited area tag is made explicit after the ZID unless the body already carries exactly
    # that tag as a word (surrounding punctuation allowed)
    w = word + ["", ",", ")", "."][punct]
    note = Note("240101#01 x %s y" % w, file_path=Path("src.zo"), line_no=3, zid=Z1, areas=[tag])
    new = nu._add_hidden_metadata(note)
    has = (word == "#" + tag)
    if has:
        return V(new.body == note.body)
    return V(new.body == "240101#01 #%s x %s y" % (tag, w))
