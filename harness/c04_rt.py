"""Runtime of the generated C04 harness module: real ZorgQueryLexer/ZorgQueryParser concretely, real
ParseTreeWalker + ZorgQueryCompiler under symbolic / solver-chosen token texts, compared with the abstract query.

Real code under symbolic execution: ZorgQueryCompiler (enterSelect, enterAnd_filter, enterSubfilter/exitSubfilter,
enterWhere/exitWhere, enterOrder_by_body, enterGroup_by_body) and its helpers _add_priorities, _add_note_types,
_get_date_range, _get_property_filter, _split_op_value, _get_value_type, _get_desc_filter, _get_select_from_field;
zorg.shared.dates.from_date_spec & co (dateutil's relativedelta runs for real); Query defaults.
Stub: the clock (date.today() = 2024-05-31, a month end).
"""
import datetime as dt
import os

from crosshair.tracers import NoTracing

from vlib import hx, skel
from vlib.hx import V  # noqa: F401
from harness import c04_common as c4
from zorg.domain.models import Query
from zorg.grammar.zorg_query.ZorgQueryLexer import ZorgQueryLexer
from zorg.grammar.zorg_query.ZorgQueryParser import ZorgQueryParser
from zorg.service.compiler import _query_compiler as qc
from zorg.service.compiler._query_compiler import ZorgQueryCompiler
from zorg.shared import dates as zdt

hx.stub_loggers()
hx.patch_clock(zdt)
TIER = os.environ.get("XH_TIER", "quick")
SEED = int(os.environ.get("XH_SEED", "0"))
SPECS = c4.all_specs(TIER, SEED)
_PARSED = {}


def parsed(i):
    if i not in _PARSED:
        with NoTracing():
            text, holes = skel.assemble(SPECS[i].parts())
            _PARSED[i] = skel.Parsed(text, holes, ZorgQueryLexer, ZorgQueryParser, "prog")
    return _PARSED[i]


def well_formed(i):
    ps = parsed(i)
    return not ps.parse_errors.errors and not ps.lex_errors.errors


def compile_spec(i, values):
    ps = parsed(i)
    hx.FixedDate.TODAY = dt.date(c4.TODAY.year, c4.TODAY.month, c4.TODAY.day)     # (built while tracing)
    ps.set_texts(values)
    q = Query()
    try:
        ps.walk(ZorgQueryCompiler(q))
    finally:
        ps.reset()
    return q


def check_c04(i, values):
    q = compile_spec(i, values)
    return c4.view_query(q) == c4.expect_query(SPECS[i], values)


# ------------------------------------------------------------------ kernels (symbolic strings, no hashing)
def k_value_type(v: str) -> bool:
    """
    pre: 1 <= len(v) <= 4 and all(ch in "0a-dy" for ch in v)
    post: _
    """
    # the value type inferred from a property value: date-like -> DATE, all digits -> INTEGER, else STRING
    want = "DATE" if c4.is_date_like(v) else ("INTEGER" if all(ch in "0123456789" for ch in v) else "STRING")
    return V(qc._get_value_type(v).name == want)


def k_split_op(op: int, v: str) -> bool:
    """
    pre: 0 <= op <= 4 and 1 <= len(v) <= 3 and all(ch in "a0*<=>" for ch in v)
    pre: v[0] not in "<>=" and v != "*"
    post: _
    """
    ops = ["", "<", "<=", ">", ">="]
    names = ["EQ", "LT", "LE", "GT", "GE"]
    got_op, got_v = qc._split_op_value(ops[op] + v)
    return V(got_op.name == names[op] and got_v == v)


def k_relative(n: int, unit: int, neg: bool) -> bool:
    """
    pre: 0 <= n <= 40 and 0 <= unit <= 2
    post: _
    """
    # [-]N(d|m|y): N days / calendar months (end-of-month clamping) / years from today; minus = the past
    hx.FixedDate.TODAY = dt.date(c4.TODAY.year, c4.TODAY.month, c4.TODAY.day)
    spec = ("-" if neg else "") + c4.pick([str(i) for i in range(41)], n) + "dmy"[unit]
    got = zdt.from_date_spec(spec)
    want = c4.date_of(spec)
    return V((got.year, got.month, got.day) == (want.year, want.month, want.day))


REL2 = ["0d", "-1d", "7d", "-1m", "1m", "-12m", "1y", "-4y", "0m", "0y"]


def k_two_days(r: int, day_a: int, day_b: int) -> bool:
    """
    pre: 0 <= r < len(REL2) and 0 <= day_a < len(c4.DAYS) and 0 <= day_b < len(c4.DAYS) and day_a != day_b
    post: _
    """
    # the same relative spec resolved twice in ONE process on two different days: each resolution is an offset from the day
    # it runs on (nothing date-dependent may be remembered between calls). CrossHair runs with lru_cache bypassed, so a
    # memoised resolver can only show in the untraced cross-validation of this condition (vlib/concrete_worker.py).
    spec = c4.pick(REL2, r)
    ok = True
    for k in (day_a, day_b):
        d = c4.pick(list(c4.DAYS), k)
        hx.FixedDate.TODAY = dt.date(d.year, d.month, d.day)
        got = zdt.from_date_spec(spec)
        want = c4.date_of(spec, d)
        ok = ok and (got.year, got.month, got.day) == (want.year, want.month, want.day)
    return V(ok)
