"""C02: decorated section skeletons (every scope carries its own tags, link, property, optionally a date),
their rendering and the inheritance oracle written from the statement.  No zorg module is patched here."""
import datetime as dt

from vlib.skel import Hole
from harness.c01_common import legal_header_sequences, val, long_ymd, short_ymd, valid_ymd, TODAY

TAG_MENU = ("a", "b1", "12", "1_2", "X", "007", "1a")         # incl. all-digit names and digits with an underscore
KEY_MENU = ("kt", "zz", "fk")                                   # kt: the key every scope sets; fk: the header block's key
SYM = {"areas": "#", "contexts": "@", "people": "%", "projects": "+"}
BARS = {1: "#" * 32, 2: "=" * 24, 3: "+" * 16, 4: "-" * 8}


class Deco:
    """metadata words of one line: tags [(attr, name)], links [name], props [(key, value)], date (YYYY-MM-DD or None)"""

    def __init__(self, tags=(), links=(), props=(), date=None):
        self.tags, self.links, self.props, self.date = list(tags), list(links), list(props), date

    def words(self):
        out = []
        for attr, name in self.tags:
            out.append([SYM[attr], name])
        for name in self.links:
            out.append(["[[", name, "]]"])
        for k, v in self.props:
            out.append([k, "::", v])
        if self.date is not None:
            out.append([self.date])
        return out


class Line:
    """kind: title | head (later header-block line) | comment (in-block) | blank | h1..h4 | item"""

    def __init__(self, kind, deco=None, text="x", level=0, zid=None, own_date=None):
        self.kind, self.deco, self.text, self.level, self.zid, self.own_date = kind, deco or Deco(), text, level, zid, own_date

    def parts(self):
        if self.kind == "blank":
            return ["\n"]
        if self.kind in ("title", "head", "comment"):
            out = ["#", " ", self.text]
        elif self.kind == "item":
            out = ["-"]
            if self.own_date is not None:
                out += [" ", self.own_date]
            if self.zid is not None:
                out += [" ", self.zid]
            out += [" ", self.text]
        else:
            out = [BARS[self.level], " ", self.text]
        for w in self.deco.words():
            out += [" "] + w
        return out + ["\n"]


class Spec:
    def __init__(self, name, lines):
        self.name, self.lines = name, lines

    def parts(self):
        out = []
        for ln in self.lines:
            out += ln.parts()
        return out

    def holes(self):
        return [p for p in self.parts() if isinstance(p, Hole)]


def all_digits(s):
    return all(ch in "0123456789" for ch in s)      # (the empty string cannot occur: names are ID tokens)


# ------------------------------------------------------------------ oracle
def expected_notes(spec, values):
    """list of dicts, one per item, in file order"""
    file_tags = {a: [] for a in SYM}
    file_links, file_props, file_date = [], {}, None
    sect = {1: None, 2: None, 3: None, 4: None}      # level -> (tags dict, links, props, date)
    out = []

    def add(deco, tags, links, props):
        for attr, name in deco.tags:
            n = val(name, values)
            if not all_digits(n):
                tags[attr].append(n)
        for name in deco.links:
            n = val(name, values)
            if not all_digits(n):
                links.append(n)
        for k, v in deco.props:
            props[val(k, values)] = val(v, values)

    for i, ln in enumerate(spec.lines):
        if ln.kind == "title":
            add(ln.deco, file_tags, file_links, file_props)
            if ln.deco.date is not None:
                file_date = long_ymd(val(ln.deco.date, values))
        elif ln.kind == "head":
            # later lines of the header block: only their properties count
            add(Deco(props=ln.deco.props), file_tags, file_links, file_props)
        elif ln.kind.startswith("h") and ln.level:
            for lv in range(ln.level, 5):
                sect[lv] = None                      # this header closes every section of its level and below
            tags = {a: [] for a in SYM}
            links, props = [], {}
            add(ln.deco, tags, links, props)
            date = long_ymd(val(ln.deco.date, values)) if ln.deco.date is not None else None
            sect[ln.level] = (tags, links, props, date)
        elif ln.kind == "item":
            tags = {a: list(file_tags[a]) for a in SYM}
            links = list(file_links)
            props = dict(file_props)
            date = None
            for lv in (1, 2, 3, 4):
                if sect[lv] is not None:
                    t, l, p, d = sect[lv]
                    for a in SYM:
                        tags[a] += t[a]
                    links += l
                    props.update(p)                  # inner scopes override outer ones
                    if d is not None:
                        date = d                     # nearest enclosing header that has one
            own_t = {a: [] for a in SYM}
            own_l, own_p = [], {}
            add(ln.deco, own_t, own_l, own_p)
            for a in SYM:
                tags[a] += own_t[a]
            links += own_l
            props.update(own_p)
            if ln.zid is not None:
                create = short_ymd(val(ln.zid, values)[0:6])
            elif ln.own_date is not None:
                create = long_ymd(val(ln.own_date, values))
            elif date is not None:
                create = date
            elif file_date is not None:
                create = file_date
            else:
                create = (TODAY.year, TODAY.month, TODAY.day)
            e = {a: sorted(set(tags[a])) for a in SYM}
            e["links"] = sorted(set(links))
            e["properties"] = props
            e["create"] = create
            e["line_no"] = 1 + i
            out.append(e)
        # comments inside blocks and blank lines contribute nothing
    return out


def note_view(n):
    return {"areas": list(n.areas), "contexts": list(n.contexts), "people": list(n.people), "projects": list(n.projects),
            "links": list(n.links), "properties": dict(n.properties),
            "create": (n.create_date.year, n.create_date.month, n.create_date.day), "line_no": n.line_no}


# ------------------------------------------------------------------ skeleton set
def sequences(tier):
    seqs = legal_header_sequences(3)
    if tier == "quick":
        seqs += [s for s in legal_header_sequences(4) if len(s) == 4 and 4 in s]      # every way to reach an H4 twice / beside others
    else:
        seqs = legal_header_sequences(5)
    return seqs


def build(seq, variant, hole_scope, hole_kind, bare_parity=1):
    """variant 'meta': tags/links/properties everywhere; 'date': dates on title/headers, items without ZID;
    'echo': as 'meta', and the note right before every header also carries that header's own tags, link and property
    (equal values in adjacent scopes: a note's metadata must not leak into, or mask, the section that follows it).
    hole_scope: index of the decorated scope that gets the hole (rotates over the page's scopes)
    hole_kind: 'tag' (an area name from TAG_MENU) | 'link' | 'key' (a property key from KEY_MENU) | None"""
    lines = []
    scopes = []      # (line, label) of every decorated line, in file order

    def deco(label, with_date):
        d = Deco(tags=[("areas", label + "a"), ("contexts", label + "c"), ("people", label + "p"), ("projects", label + "j")],
                 links=[label + "l"], props=[(label + "k", label + "v"), ("kt", label)])
        if variant == "date" and with_date:
            d = Deco(tags=[("areas", label + "a")], date=with_date)
        return d
    title = Line("title", deco("f", "2024-01-02"), text="title")
    head = Line("head", deco("g", "2024-01-03"), text="more")
    lines += [title, head, Line("blank")]
    scopes += [title, head]
    n = 0

    def item():
        nonlocal n
        zid = None if variant == "date" else "2406%02d#0%s" % (10 + n, "RSTUVWXYZ"[n % 9])
        own = "2024-07-%02d" % (10 + n) if (variant == "date" and n % 3 == 2) else None
        it = Line("item", deco("n%d" % n, None), text="note%d" % n, zid=zid, own_date=own)
        if variant == "date":
            # every other note is a bare one-word note (exactly one id token), the rest carry one tag; bare_parity
            # decides whether the bare ones sit right before the dated or before the undated headers
            it.deco = Deco(tags=[("areas", "n%da" % n)]) if n % 2 != bare_parity else Deco()
        n += 1
        scopes.append(it)
        return it
    lines.append(item())
    cm = Line("comment", deco("c", "2024-01-09"), text="comment")
    lines.append(cm)
    scopes.append(cm)
    lines.append(item())
    for j, lvl in enumerate(seq):
        if variant == "echo":
            e = deco("s%d" % j, None)
            prev = scopes[-1]                      # the item that precedes this header
            prev.deco.tags += e.tags
            prev.deco.links += e.links
            prev.deco.props += [e.props[0]]
        lines.append(Line("blank"))
        # in the date variant every second header carries a date
        h = Line("h%d" % lvl, deco("s%d" % j, "2024-0%d-1%d" % (2 + lvl, j) if j % 2 == 0 else None), text="S%d" % j, level=lvl)
        lines.append(h)
        scopes.append(h)
        lines.append(item())
    if hole_kind is not None:
        tgt = scopes[hole_scope % len(scopes)]
        if hole_kind == "tag" and tgt.deco.tags:
            attr, _old = tgt.deco.tags[0]
            tgt.deco.tags[0] = (attr, Hole("t", "hx", "tagm"))
        elif hole_kind == "link" and tgt.deco.links:
            tgt.deco.links[0] = Hole("t", "hx", "tagm")
        elif hole_kind == "key" and tgt.deco.props:
            _k, v = tgt.deco.props[0]
            tgt.deco.props[0] = (Hole("k", "hk", "keym"), v)
    return lines


def all_specs(tier, seed):
    out = []
    kinds = ["tag", "key", "link"]
    for si, seq in enumerate(sequences(tier)):
        name = "".join(map(str, seq)) or "none"
        for vi, variant in enumerate(("meta", "date")):
            hk = kinds[(si + seed) % 3] if variant == "meta" else "tag"
            out.append(Spec("c02-%s-%s-%s" % (name, variant, hk), build(seq, variant, hole_scope=si + seed + vi, hole_kind=hk,
                                                                           bare_parity=1 if si % 3 else 0)))
    for si, seq in enumerate(sequences(tier)):
        if seq:
            out.append(Spec("c02-%s-echo" % "".join(map(str, seq)), build(seq, "echo", hole_scope=0, hole_kind=None)))
    return out


def wrapper_args(h):
    if h.kind == "tagm":
        return [(h.name, "int")], ["0 <= %s < len(c2.TAG_MENU)" % h.name], "c2.TAG_MENU[%s]" % h.name
    if h.kind == "keym":
        return [(h.name, "int")], ["0 <= %s < len(c2.KEY_MENU)" % h.name], "c2.KEY_MENU[%s]" % h.name
    raise ValueError(h.kind)
