"""C10 — `note move` relocates exactly one note and loses nothing.   (DESIGN.md §5)

CrossHair conditions (harness/c10_h.py): the real _move_note / FileManager / hidden-metadata code
over solver-chosen page layouts (one condition per source layout) + kernels with symbolic lines.
Replay: the whole public path on real files - `db create` (messagebus), note_utils.move_note with a
real template pattern map, walk_zorg_page on the results - judged by the same oracle.
"""
import os as _os
_os.environ["XH_NO_PATCH"] = "1"   # this process replays on the real code: never patch zorg here

import os
import re
import shutil
import sys
import tempfile

from vlib import xh
from vlib.driver import Report, handle_xh, known_findings
from harness import c10_common as cm

HDIR = os.path.dirname(os.path.abspath(__file__))
H = os.path.join(HDIR, "c10_h.py")


def real_compile(zdir):
    from pathlib import Path
    from zorg.service.compiler import walk_zorg_page

    def compile_text(text, name):
        d = tempfile.mkdtemp(prefix="c10c")
        try:
            p = Path(d) / name
            p.write_text(text)
            page = walk_zorg_page(Path(d), p)
            errs = ["has_errors"] if page.has_errors else []
            # walk_zorg_page does not expose the parser errors; detect "missing notes on error" by flag
            return page, errs
        finally:
            shutil.rmtree(d, ignore_errors=True)
    return compile_text


def replay_move(args):
    from pathlib import Path
    from zorg.domain.messages import commands
    from zorg.service import messagebus, note_utils
    src_i, form_i, dst_i, marker_i, tmpl = args
    src_lines, note_lines = cm.build_src(src_i, form_i)
    dst_same = cm.DST_LAYOUTS[dst_i] == "SAME"
    dst_lines = None if (cm.DST_LAYOUTS[dst_i] is None or dst_same) else list(cm.DST_LAYOUTS[dst_i])
    d = tempfile.mkdtemp(prefix="c10r")
    try:
        z = Path(d)
        (z / "src.zo").write_text("\n".join(src_lines))
        if dst_lines is not None:
            (z / "dst.zo").write_text("\n".join(dst_lines))
        (z / "tmpl.zot").write_text("template header\n\n" + cm.TEMPLATE_TEXT)
        comp = real_compile(z)
        old_src_page, _ = comp("\n".join(src_lines), "src.zo")
        old_notes = list(old_src_page.notes)
        dst_valid = True
        if dst_lines is not None:
            old_dst_page, e2 = comp("\n".join(dst_lines), "dst.zo")
            dst_valid = not e2 and not _has_parse_error("\n".join(dst_lines))
            if dst_valid:
                old_notes += list(old_dst_page.notes)
        indexed = [n for n in old_src_page.notes if n.zid == cm.Z1][0]
        db = "sqlite:///%s/.zorg/zorg.db" % d
        if not dst_valid:
            (z / ".zorg").mkdir(exist_ok=True)
            (z / ".zorg" / "error_file_whitelist.txt").write_text("dst.zo")
        messagebus.handle(z, db, [commands.CreateDBCommand(z, False)], should_delete_existing_db=True)
        before = {p.name: p.read_text() for p in z.glob("*.zo")}
        tpm = {re.compile(r"dst\.zo"): Path("tmpl.zot")} if tmpl else {}
        rc = note_utils.move_note(z, db, tpm, zid=cm.Z1, new_page=z / ("src.zo" if dst_same else "dst.zo"),
                                  note_type=cm.MARKERS[marker_i])
        new_src = (z / "src.zo").read_text()
        new_dst = (z / "dst.zo").read_text() if (z / "dst.zo").exists() else None
        after = {p.name: p.read_text() for p in z.glob("*.zo")}
        ob = dict(rc=rc, new_src_text=new_src, new_dst_text=new_dst, writes=int(after != before),
                  src_lines=src_lines, note_lines=note_lines, dst_lines=dst_lines, dst_same=dst_same,
                  dst_valid=dst_valid, old_notes=old_notes, indexed=indexed, marker=cm.MARKERS[marker_i])
        ok, why = cm.judge(ob, comp)
        return (not ok), {"summary": "note move of %s from %r to %r (marker %r): %s" % (
            cm.Z1, "\n".join(src_lines), None if dst_lines is None else "\n".join(dst_lines),
            cm.MARKERS[marker_i], why), "source_before": "\n".join(src_lines),
            "destination_before": None if dst_lines is None else "\n".join(dst_lines),
            "source_after": new_src, "destination_after": new_dst, "rc": rc, "why": why}
    finally:
        shutil.rmtree(d, ignore_errors=True)


def _has_parse_error(text):
    import antlr4
    from zorg.grammar.zorg_file.ZorgFileLexer import ZorgFileLexer
    from zorg.grammar.zorg_file.ZorgFileParser import ZorgFileParser
    from zorg.service.compiler._file_compiler import ErrorManager
    lexer = ZorgFileLexer(antlr4.InputStream(text))
    lexer.removeErrorListeners()
    parser = ZorgFileParser(antlr4.CommonTokenStream(lexer))
    parser.removeErrorListeners()
    em = ErrorManager()
    parser.addErrorListener(em)
    parser.prog()
    return bool(em.errors)


def replay_kernel(name, args):
    from pathlib import Path
    from zorg.domain.models import Note
    from zorg.service import note_utils
    from zorg.storage.file import FileManager
    d = tempfile.mkdtemp(prefix="c10k")
    try:
        z = Path(d)
        if name == "k_add_note":
            l1, a, b, nl = args
            lines = ["- n" if a else "# h", l1, "" if b else "x"] + ([""] if nl else [])
            (z / "dst.zo").write_text("\n".join(lines))
            note = Note("240101#01 body", file_path=Path("src.zo"), line_no=3, zid=cm.Z1)
            err = FileManager(z).add_note(note, Path("dst.zo"))
            new = (z / "dst.zo").read_text().split("\n")
            ok = False
            for i in range(len(new)):
                if new[i] == "- 240101#01 body":
                    rest = new[:i] + new[i + 1:]
                    ok = ok or rest in (lines, lines + [""], lines + ["", ""])
            return (err is not None or not ok), {
                "summary": "add_note on page %r gives %r: not the old lines plus the note" % ("\n".join(lines), "\n".join(new))}
        if name == "k_delete_note":
            l0, pos, two = args
            body = "240101#01 body" + ("\n  more" if two else "")
            mine = ["- 240101#01 body"] + (["  more"] if two else [])
            others = [l0, "- 240101#02 see 240101#01 x"]
            lines = others[:pos] + mine + others[pos:] + [""]
            (z / "src.zo").write_text("\n".join(lines))
            note = Note(body, file_path=Path("src.zo"), line_no=pos + 1, zid=cm.Z1)
            err = FileManager(z).delete_note(note)
            new = (z / "src.zo").read_text().split("\n")
            return (err is not None or new != others + [""]), {
                "summary": "delete_note on page %r gives %r, expected %r" % ("\n".join(lines), "\n".join(new), "\n".join(others + [""]))}
        if name == "k_hidden_metadata":
            tag, word, punct = args
            w = word + ["", ",", ")", "."][punct]
            note = Note("240101#01 x %s y" % w, file_path=Path("src.zo"), line_no=3, zid=cm.Z1, areas=[tag])
            new = note_utils._add_hidden_metadata(note)
            want = note.body if word == "#" + tag else "240101#01 #%s x %s y" % (tag, w)
            return new.body != want, {"summary": "inherited area %r with body %r gives %r, expected %r" % (tag, note.body, new.body, want)}
    finally:
        shutil.rmtree(d, ignore_errors=True)
    return False, {"summary": "no replayer for " + name}


def replayer(name, args, kwargs, meta):
    if name == "move":
        return replay_move(args)
    return replay_kernel(name, args)


def main():
    tier = sys.argv[1] if len(sys.argv) > 1 else "quick"
    seed = int(sys.argv[2]) if len(sys.argv) > 2 else 0
    rep = Report("C10", tier, seed)
    rep.describe(
        explanation=(
            "CrossHair/z3 symbolic execution of the real _move_note, _to_done_note, _add_hidden_metadata, "
            "_get_hidden_metadata_mutates, _note_body_has_tag, FileManager.add_note/delete_note and Note.to_string over an "
            "in-memory directory whose page layouts the solver picks from menus (source layout x note form x destination "
            "layout x marker x template match); each explored path is judged by the property oracle: source = old lines "
            "minus the note's lines, destination = old lines plus one inserted block, both pages recompile (real lexer, "
            "parser and listener on the resulting text) to the same other notes, the moved note has the requested kind, "
            "its body words/bullets and at least its previous metadata. Kernels use truly symbolic line strings."),
        functions=["zorg.service.note_utils._move_note/_to_done_note/_add_hidden_metadata/_get_hidden_metadata_mutates/_note_body_has_tag",
                   "zorg.storage.file.FileManager.add_note/delete_note/_is_first_line_of_note", "zorg.domain.models.Note.to_string",
                   "ZorgFileLexer/ZorgFileParser/ZorgFileCompiler (concretely, on each path's result)"],
        stubs=["c.prepend_zdir -> in-memory FakePath; init_from_template recorded, writes a fixed template text when the "
               "layout says a pattern matches (C16 covers the real function)",
               "session.repo.get_note_by_zid returns the note compiled from the source page (the SQL round trip is outside)"],
        bounds=["%d source layouts x %d note forms x %d destination layouts x 3 markers x template yes/no" % (
            len(cm.SRC_LAYOUTS), len(cm.NOTE_FORMS), len(cm.DST_LAYOUTS)),
            "kernels: one symbolic line of <= 2-3 characters over '- a#' inside fixed context lines; tag/word <= 2-3 characters"],
        outside=["whitespace-only lines (add_note treats them as the blank line it may replace)",
                 "moving a note onto its own page (statement does not cover it; executed for totality only)",
                 "inherited property values containing spaces", "the index (SQL) side of the move: note move does not touch it"])
    kf_active, _ = known_findings("C10")
    kf_ids = {e["id"] for e in kf_active}
    T = 120 if tier == "quick" else 480
    env0 = {"XH_KNOWN": ",".join(sorted(kf_ids)), "XH_LEN": "2" if tier == "quick" else "3"}
    conds = []
    for i in range(len(cm.SRC_LAYOUTS)):
        conds.append(xh.Cond(H, "move", timeout=T, env=dict(env0, XH_SRC=i),
                             meta={"variant": "src%d" % i, "family": "move",
                                   "bound": "source layout %d: %r" % (i, cm.SRC_LAYOUTS[i])}))
    for nm in ("k_add_note", "k_delete_note", "k_hidden_metadata"):
        conds.append(xh.Cond(H, nm, timeout=T + 60, env=env0, meta={"family": "kernel"}))
    conds.append(xh.Cond(H, "move", timeout=30, twin=True, env=dict(env0, XH_SRC=0), meta={"variant": "src0", "family": "twin"}))
    conds.append(xh.Cond(H, "k_delete_note", timeout=30, twin=True, env=env0, meta={"family": "twin"}))
    results = xh.run_all(conds)
    handle_xh(rep, results, replayer)
    rep.sample({"source": cm.SRC_LAYOUTS[7], "note": cm.NOTE_FORMS[2], "destination": cm.DST_LAYOUTS[3], "marker": "x"})
    sys.exit(rep.finish())


if __name__ == "__main__":
    main()
