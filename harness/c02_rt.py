"""Runtime of the generated C02 harness module (see c01_rt.py): real lexer/parser concretely, real walker +
ZorgFileCompiler under symbolic (menu-valued) names, compared with the inheritance oracle of c02_common.

Real code under symbolic execution: ZorgFileCompiler._add_tag / _add_prop / enterDate / enterArea..enterProject /
enterLink / enterSimple_prop / exitH1..H4_section / _reset_note_context / _ZorgFileCompilerState.properties /
create_date / _get_current_tags, and everything else the walk touches.
"""
import os
from pathlib import Path

from crosshair.tracers import NoTracing

from vlib import hx, skel
from vlib.hx import V  # noqa: F401
from harness import c02_common as c2
from zorg.domain.models import Page
from zorg.grammar.zorg_file.ZorgFileLexer import ZorgFileLexer
from zorg.grammar.zorg_file.ZorgFileParser import ZorgFileParser
from zorg.service.compiler import _file_compiler as fc
from zorg.service.compiler._file_compiler import ErrorManager, ZorgFileCompiler

hx.stub_loggers()
hx.patch_clock(fc)
hx.FixedDate.TODAY = c2.TODAY
hx.install_strptime_model()
TIER = os.environ.get("XH_TIER", "quick")
SEED = int(os.environ.get("XH_SEED", "0"))
SPECS = c2.all_specs(TIER, SEED)
_PARSED = {}


def parsed(i):
    if i not in _PARSED:
        with NoTracing():
            text, holes = skel.assemble(SPECS[i].parts())
            ps = skel.Parsed(text, holes, ZorgFileLexer, ZorgFileParser, "prog")
            if ps.parse_errors.errors or ps.lex_errors.errors:
                raise AssertionError("skeleton %s does not parse: %r\n%s" % (SPECS[i].name, ps.parse_errors.errors[:2], text))
            _PARSED[i] = ps
    return _PARSED[i]


def compile_spec(i, values):
    ps = parsed(i)
    ps.set_texts(values)
    page = Page(Path("/z/p.zo"))
    try:
        ps.walk(ZorgFileCompiler(page, ErrorManager()))
    finally:
        ps.reset()
    return page


def check_c02(i, values):
    page = compile_spec(i, values)
    want = c2.expected_notes(SPECS[i], values)
    notes = page.notes
    if page.has_errors or len(notes) != len(want):
        return False
    for n, e in zip(notes, want):
        got = c2.note_view(n)
        for k in e:
            if got[k] != e[k]:
                return False
    return True
