"""C08 — Indexing never crashes on any file and never silently drops a broken one.   (DESIGN.md §3)

Part A  risky word forms on valid pages          } pages chosen by the solver, compiled by the REAL
Part B  single-token deletions / duplications    } walk_zorg_page outside tracing (ANTLR cannot be traced)
Part C  refusal logic of create_database / reindex_database under symbolic flags (CrossHair proper)
The C01 and C02 checks additionally run the listener under truly symbolic token texts; a crash there
is reported by those checks.  Replay: real files, real walk_zorg_page / `db create`.
"""
import os as _os
_os.environ["XH_NO_PATCH"] = "1"   # this process replays on the real code: never patch zorg here

import importlib.util
import os
import sys

from vlib import xh, zreal
from vlib.driver import Report, handle_xh, known_findings

HDIR = os.path.dirname(os.path.abspath(__file__))
H = os.path.join(HDIR, "c08_h.py")


def _load():
    spec = importlib.util.spec_from_file_location("c08_h_tbl", H)
    m = importlib.util.module_from_spec(spec)
    spec.loader.exec_module(m)
    return m


def real_judge(m, text, verbose):
    """the statement on a real file through the real walk_zorg_page"""
    from pathlib import Path
    from zorg.service.compiler import walk_zorg_page
    nerr = m.parser_errors(text)
    with zreal.TempZdir("c08r") as z:
        (z / "p.zo").write_text(text)
        try:
            page = walk_zorg_page(z, z / "p.zo", verbose=verbose)
        except Exception as e:  # noqa
            return False, "compiling raises %s: %s" % (type(e).__name__, e)
        notes = page.notes
        if nerr and not page.has_errors:
            return False, "the parser reports %d syntax error(s) but the page is not flagged (it would be indexed with %d notes)" % (nerr, len(notes))
        if nerr and notes:
            return False, "flagged page still carries %d notes" % len(notes)
        if not nerr and page.has_errors:
            return False, "no syntax error but the page is flagged"
    return True, ""


def replay_refusal(m, args):
    """real `db create` / `db reindex` on real files: broken pages are really broken, whitelist file on disk"""
    e0, e1, e2, w0, w1, w2, force, reindex = args
    good, broken_text = "# t\n\n- 240101#0%d n\n", "\n- 240101#0%d no title line\n"
    with zreal.TempZdir("c08c") as z:
        for i, (n, e) in enumerate(zip(m.PAGES, (e0, e1, e2))):
            (z / n).parent.mkdir(parents=True, exist_ok=True)
            (z / n).write_text((broken_text if e else good) % i)
        (z / ".zorg").mkdir()
        wl = [n for n, w in zip(m.PAGES, (w0, w1, w2)) if w]
        (z / ".zorg" / "error_file_whitelist.txt").write_text("\n".join(sorted(wl)))
        raised = False
        try:
            if reindex:
                force = False
                zreal.reindex(z)
            else:
                zreal.create_db(z, update_whitelist=force)
        except RuntimeError:
            raised = True
        brk = [n for n, e in zip(m.PAGES, (e0, e1, e2)) if e]
        must = any((n not in wl) and not force for n in brk)
        if raised != must:
            return True, {"summary": "%s with broken pages %r, whitelist %r, -f %s: %s, expected %s" % (
                "db reindex" if reindex else "db create", brk, wl, force, "refused" if raised else "accepted",
                "refusal" if must else "acceptance")}
        if not raised:
            after = [x for x in (z / ".zorg" / "error_file_whitelist.txt").read_text().split("\n") if x]
            if after != sorted(brk):
                return True, {"summary": "whitelist afterwards %r, expected %r" % (after, sorted(brk))}
            idx = zreal.db_note_views(z)
            pages = sorted({v["page"] for v in idx})
            want = sorted(n for n, e in zip(m.PAGES, (e0, e1, e2)) if not e)
            if pages != want:
                return True, {"summary": "pages with notes in the index %r, expected %r" % (pages, want)}
    return False, {"summary": "refusal logic as stated"}


def replayer(name, args, kwargs, meta):
    m = _load()
    if name == "risky":
        kind_i, w1, w2, zid_first, verbose = args
        text = m.risky_text(kind_i, kind_i == 1, w1, w2, 0, zid_first)
    elif name == "risky_cont":
        kind_i, f, cont_i, zid_first, bare = args
        text, verbose = m.risky_text(kind_i, kind_i % 2 == 1, m.FIRST_FOR_CONT[f], 0, cont_i, zid_first, bare), False
    elif name == "edited":
        b, j, dup = args
        verbose = (j % 2 == 1)
        text = m.edited_text(b, j, dup)
        if text is None:
            return False, {"summary": "base page %d has no token %d: nothing to compile" % (b, j)}
    elif name == "kf_unflagged_broken_page":
        text, verbose = m.KF_PAGES[args[0]], args[1]
    elif name == "refusal":
        return replay_refusal(m, args)
    else:
        return False, {"summary": "no replayer for " + name}
    ok, why = real_judge(m, text, verbose)
    return (not ok), {"summary": "page %r (verbose=%s): %s" % (text, verbose, why), "page": text}


def main():
    tier = sys.argv[1] if len(sys.argv) > 1 else "quick"
    seed = int(sys.argv[2]) if len(sys.argv) > 2 else 0
    rep = Report("C08", tier, seed)
    m = _load()
    rep.describe(
        explanation=(
            "Parts A/B: the solver (CrossHair/z3) chooses a page - a pair of risky word forms, a continuation-line shape, or a "
            "single-token deletion/duplication of one of %d valid base pages - and the REAL walk_zorg_page (real lexer, parser, "
            "ErrorManager, walker, ZorgFileCompiler; verbose and non-verbose) compiles it concretely; asserted: no exception; "
            "parser errors => page flagged and no notes; no parser errors => not flagged. Part C: CrossHair on the real "
            "create_database / reindex_database with walk_zorg_page stubbed: raises iff some page is broken, not whitelisted and "
            "-f is off; the whitelist written equals the broken pages; every accepted page reaches the index with its notes. "
            "Truly symbolic token texts through the listener are exercised by the C01/C02 checks (a crash there is theirs to report)." % len(m.BASES)),
        functions=["zorg.service.compiler._api.walk_zorg_page", "ErrorManager", "ZorgFileCompiler (esp. _add_note bullet scan, enterInline_prop, "
                   "enterId, enterDate)", "zorg.service.handlers.create_database/reindex_database/_get_error_file_whitelist"],
        stubs=["antlr4.FileStream serves the in-memory page text", "part C: walk_zorg_page returns pages with harness-chosen has_errors; "
               "recording repo; in-memory FS; json shim; hash = identity; console silent"],
        bounds=["A: %d first-word forms x %d second-word forms x ZID in front or not x plain note / prioritised todo x verbose; "
                "%d continuation shapes x 7 first-word forms x 6 kinds (+ headlines holding only date/ZID)" % (
                    len(m.FIRST), len(m.SECOND), len(m.CONTS)),
                "B: every single-token deletion and duplication (token index < 80) of %d base pages (a quarter of the C01 core set, a "
                "third of the section set, one decorated sectioned page)" % len(m.BASES),
                "C: 3 pages whose names contain one another x broken? x whitelisted? x -f x create/reindex"],
        outside=["arbitrary strings over and outside the grammar's alphabet: symbolic characters through the ANTLR runtime are out of "
                 "reach (DESIGN.md §2.1) - this part of the quantifier is NOT claimed", "termination of the ANTLR runtime (trusted)",
                 "multi-token edits; character-level edits"])
    kf_active, _ = known_findings("C08")
    kf_ids = {e["id"] for e in kf_active}
    T = 200 if tier == "quick" else 600
    env0 = {"XH_KNOWN": ",".join(sorted(kf_ids))}
    conds = []
    for k in (0, 1):
        for lo in range(0, len(m.FIRST), 8):
            conds.append(xh.Cond(H, "risky", timeout=T, env=dict(env0, XH_KIND=k, XH_W1="%d-%d" % (lo, lo + 8)),
                                 meta={"variant": "kind%d-first[%d:%d]" % (k, lo, lo + 8), "family": "A"}))
    for k in range(6):
        conds.append(xh.Cond(H, "risky_cont", timeout=T, env=dict(env0, XH_KIND=k), meta={"variant": "kind%d" % k, "family": "A"}))
    step = 4
    for lo in range(0, len(m.BASES), step):
        conds.append(xh.Cond(H, "edited", timeout=T, env=dict(env0, XH_BASE="%d-%d" % (lo, lo + step)),
                             meta={"variant": "bases[%d:%d]" % (lo, lo + step), "family": "B"}))
    conds.append(xh.Cond(H, "refusal", timeout=T, env=env0, meta={"family": "C"}))
    if "KF-C08-1" in kf_ids:
        conds.append(xh.Cond(H, "kf_unflagged_broken_page", timeout=60, env=env0, meta={"family": "known", "known_finding": "KF-C08-1"}))
    conds.append(xh.Cond(H, "refusal", timeout=30, twin=True, env=env0, meta={"family": "twin"}))
    conds.append(xh.Cond(H, "edited", timeout=30, twin=True, env=dict(env0, XH_BASE="0-6"), meta={"variant": "bases[0:6]", "family": "twin"}))
    results = xh.run_all(conds)
    handle_xh(rep, results, replayer)
    rep.sample({"risky page": m.risky_text(1, True, 14, 4, 3, True), "edited page": m.edited_text(len(m.BASES) - 1, 7, True)})
    sys.exit(rep.finish())


if __name__ == "__main__":
    main()
