"""C03 CrossHair harness: SQLRepo.get_notes_by_query maps result rows back to domain notes.

Real code under symbolic execution: zorg.storage.sql._repo.SQLRepo.get_notes_by_query, _get_page (method and
module function), _record_seen_page; zorg.shared.common.get_only_item.
Stubs: the SQL session yields the harness' rows (which rows a filter selects is the z3 part's subject), the page
converter returns the domain page of a row's page, to_sql_select returns a marker.
"""
from pathlib import Path

from vlib import hx
from vlib.hx import V
from zorg.domain.models import H1, Block, Note, Page
from zorg.storage.sql import _repo as rp

hx.stub_loggers()
hx.put(rp, "to_sql_select", lambda query, session: "STMT")
ZIDS = ["240101#01", "240101#02", "240202#01"]
# two pages; the ZID 240101#01 occurs on BOTH (ZIDs are unique per page only in this harness, to make the page matter)
PAGES = {"a.zo": ["240101#01", "240101#02"], "d/b.zo": ["240101#01", "240202#01"]}
ROWS = [("a.zo", "240101#01"), ("a.zo", "240101#02"), ("d/b.zo", "240101#01"), ("d/b.zo", "240202#01")]


class SqlPage:
    def __init__(self, path):
        self.path = path


class SqlH1:
    def __init__(self, page):
        self.page = page


class SqlBlock:
    def __init__(self, page, level):
        # the block hangs off an H1..H4 section of the page; _get_page walks up to the page
        self.h1 = self.h2 = self.h3 = self.h4 = None
        h1 = SqlH1(page)
        if level == 1:
            self.h1 = h1
        else:
            class _H:
                pass
            h2 = _H()
            h2.h1 = h1
            if level == 2:
                self.h2 = h2
            else:
                h3 = _H()
                h3.h2 = h2
                if level == 3:
                    self.h3 = h3
                else:
                    h4 = _H()
                    h4.h3 = h3
                    self.h4 = h4


class SqlNote:
    def __init__(self, path, zid, level):
        self.page_path, self.zid = path, zid
        self.block = SqlBlock(SqlPage(path), level)


class Conv:
    def __init__(self):
        self.calls = 0

    def to_entity(self, sql_page):
        self.calls += 1
        page = Page(Path(sql_page.path))
        notes = [Note(z + " body of " + sql_page.path, file_path=Path(sql_page.path), line_no=3 + i, zid=z)
                 for i, z in enumerate(PAGES[sql_page.path])]
        page.h0 = H1("", [Block(notes=notes)])
        return page


class Sess:
    def __init__(self, rows):
        self.rows = rows

    def exec(self, stmt):
        assert stmt == "STMT"
        return list(self.rows)


def rows_to_notes(r0: int, r1: int, r2: int, level: int) -> bool:
    """
    pre: -1 <= r0 < 4 and -1 <= r1 < 4 and -1 <= r2 < 4 and 1 <= level <= 4
    pre: (r0 != r1 or r0 < 0) and (r0 != r2 or r0 < 0) and (r1 != r2 or r1 < 0)
    post: _
    """
    # up to three distinct result rows in any order (the -1 entries are absent): one domain note per row, in row order,
    # each being the note with that row's ZID on that row's page; every page is converted at most once
    picked = []
    for r in (r0, r1, r2):
        for k in range(4):
            if r == k:
                picked.append(ROWS[k])
    lv = 1
    for k in (1, 2, 3, 4):
        if level == k:
            lv = k
    repo = rp.SQLRepo(Path("/z"), Sess([SqlNote(p, z, lv) for p, z in picked]))
    conv = Conv()
    repo._page_converter = conv
    got = repo.get_notes_by_query(None)
    ok = [(str(n.file_path), n.zid) for n in got] == picked and conv.calls == len({p for p, _z in picked})
    return V(ok and all(n.body == z + " body of " + p for n, (p, z) in zip(got, picked)))
