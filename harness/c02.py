"""C02 — Notes inherit metadata from the page title and enclosing sections only.   (DESIGN.md §3)

Skeleton + holes on decorated section skeletons: every legal header sequence up to the bound, every
scope (title line, a later header-block line, an in-block comment, every section header, every item)
carrying its own tags of the four kinds, a link, a property, a shared property key and - in the date
variant - a date; one menu-valued hole per page (an area name incl. all-digit spellings, a link name,
or a property key that may collide with outer scopes), rotating over the scopes.
Replay: the substituted page in a real file through walk_zorg_page.
"""
import os as _os
_os.environ["XH_NO_PATCH"] = "1"   # this process replays on the real code: never patch zorg here

import os
import shutil
import sys

from vlib import gen, skel, xh
from vlib.driver import Report, handle_xh
from harness import c02_common as c2
from harness.c01 import real_compile


def generate(tier, seed):
    specs = c2.all_specs(tier, seed)
    funcs = []
    for i, s in enumerate(specs):
        args, pres, vals = [], [], []
        for h in s.holes():
            a_, p_, v_ = c2.wrapper_args(h)
            args += a_
            pres += p_
            vals.append('"%s": %s' % (h.name, v_))
        if not args:
            args = [("dummy", "bool")]
        funcs.append(("sk_%d" % i, args, pres, ["return V(check_c02(%d, {%s}))" % (i, ", ".join(vals))]))
    d = gen.gen_dir()
    path = gen.write_module(os.path.join(d, "c02_gen.py"),
                            "from harness.c02_rt import *  # noqa: F401,F403\nfrom harness.c02_rt import SPECS, c2, check_c02", funcs)
    return d, path, specs


def make_replayer(specs):
    def replayer(name, args, kwargs, meta):
        i = int(name.split("_")[1])
        spec = specs[i]
        vals, k = {}, 0
        for h in spec.holes():
            menu = c2.TAG_MENU if h.kind == "tagm" else c2.KEY_MENU
            vals[h.name] = menu[args[k]]
            k += 1
        text, holes = skel.assemble(spec.parts())
        out, pos = "", 0
        for off, h in holes:
            out += text[pos:off] + vals[h.name]
            pos = off + len(h.default)
        out += text[pos:]
        page, err = real_compile(out)
        if err:
            return True, {"summary": "compiling the page raises %s" % err, "page": out}
        want = c2.expected_notes(spec, vals)
        notes = page.notes
        if page.has_errors or len(notes) != len(want):
            return True, {"summary": "page compiles to %d notes (has_errors=%s), %d items written" % (len(notes), page.has_errors, len(want)),
                          "page": out}
        for n, e in zip(notes, want):
            got = c2.note_view(n)
            for key in e:
                if got[key] != e[key]:
                    return True, {"summary": "note on line %d: %s = %r, by the statement %r (hole values %r)" % (
                        e["line_no"], key, got[key], e[key], vals), "page": out}
        return False, {"summary": "page compiles as written"}
    return replayer


def main():
    tier = sys.argv[1] if len(sys.argv) > 1 else "quick"
    seed = int(sys.argv[2]) if len(sys.argv) > 2 else 0
    rep = Report("C02", tier, seed)
    gdir, path, specs = generate(tier, seed)
    try:
        nseq = len(c2.sequences(tier))
        rep.describe(
            explanation=(
                "Skeleton + holes on %d decorated pages = %d legal header sequences x {metadata variant, date variant, and - hole-less - "
                "the echo variant in which the note right before each header repeats that header's own tags, link and property}: parsed with "
                "the real lexer/parser, walked by the real ParseTreeWalker + ZorgFileCompiler under CrossHair/z3 with one "
                "menu-valued name symbolic; EVERY note of the page is compared with the oracle: tags of the four kinds and links = "
                "union over title line, enclosing section headers and the note itself minus all-digit names; properties merged "
                "header block -> H1 -> H2 -> H3 -> H4 -> note (innermost wins); creation date = own, else nearest enclosing "
                "header that has one, else the title line's." % (len(specs), nseq)),
            functions=["ZorgFileCompiler._add_tag/_add_prop/enterDate/enterArea/enterContext/enterPerson/enterProject/enterLink/"
                       "enterSimple_prop/enterH1..H4_header/exitH1..H4_section/exitComment/enterItem/_reset_note_context",
                       "_ZorgFileCompilerState.properties/create_date/_get_current_tags", "ZorgFileLexer/ZorgFileParser (concretely)"],
            stubs=["strptime model, clock = 2024-05-10, loggers silent"],
            bounds=["header sequences: all %d legal ones of length <= 3%s" % (
                nseq, " plus the 7 of length 4 that contain an H4" if tier == "quick" else "; thorough: all of length <= 5"),
                "one hole per page from the menus %r (names) / %r (keys), in a scope that rotates with the page index and "
                "VERIF_SEED=%d; every other name concrete and distinct per scope" % (c2.TAG_MENU, c2.KEY_MENU, seed)],
            outside=["more headers than the bound; more than one date per header; quoted / inline / bullet properties "
                     "(Appendix B); names outside the menus (the all-digit test is a character loop over the name)"])
        T = 120 if tier == "quick" else 240
        env = {"XH_TIER": tier, "XH_SEED": seed}
        conds = [xh.Cond(path, "sk_%d" % i, timeout=T, env=env,
                         meta={"variant": s.name, "family": "c02", "bound": "holes " + ", ".join("%s:%s" % (h.name, h.kind) for h in s.holes())})
                 for i, s in enumerate(specs)]
        conds.append(xh.Cond(path, "sk_3", timeout=30, twin=True, env=env, meta={"variant": specs[3].name, "family": "twin"}))
        results = xh.run_all(conds)
        handle_xh(rep, results, make_replayer(specs))
        for s in (specs[0], specs[-1]):
            rep.sample({"skeleton": s.name, "text": skel.assemble(s.parts())[0], "holes": [repr(h) for h in s.holes()]})
    finally:
        shutil.rmtree(gdir, ignore_errors=True)
    sys.exit(rep.finish())


if __name__ == "__main__":
    main()
