"""C14 — `file rename` retargets every link to the page and nothing else.   (DESIGN.md §5)

CrossHair conditions (harness/c14_h.py): the real run_file_rename over an in-memory directory;
page names from a systematic menu, link names by their relation to the renamed page.
Replay: the real runner on a real temp directory (real pathlib, rglob, rename).
"""
import os as _os
_os.environ["XH_NO_PATCH"] = "1"   # this process replays on the real code: never patch zorg here

import importlib.util
import os
import sys

from vlib import xh, zreal
from vlib.driver import Report, handle_xh

HDIR = os.path.dirname(os.path.abspath(__file__))
H = os.path.join(HDIR, "c14_h.py")
RELS = ["A", "A+x", "x+A", "A/x", "x/A", "other", "B", "A.pdf", "A:x", "A+", "A-x", "A x"]


def _names():
    import ast
    src = open(H).read()
    k = src.index("NAMES = [x + y")
    line = src[k:src.index("\n", k)]
    ns = {}
    exec(line, ns)
    return ns["NAMES"]


def rel_name(r, A, B):
    return [A, A + "x", "x" + A, A + "/x", "x/" + A, "q", B, A + ".pdf", A + ":x", A + "+", A + "-x", A + " x"][r]


def build(A, B, r0, anchor0, r1, anchor1):
    def link(r, anchor, retarget):
        n = rel_name(r, A, B)
        if retarget and n == A:
            n = B
        return "[[" + n + ("#sec" if anchor else "") + "]]"
    text = "# t\n\n- 240101#01 see " + link(r0, anchor0, False) + " and " + link(r1, anchor1, False) + ".\n"
    want = "# t\n\n- 240101#01 see " + link(r0, anchor0, True) + " and " + link(r1, anchor1, True) + ".\n"
    return text, want


def replayer(name, args, kwargs, meta):
    import importlib
    from types import SimpleNamespace
    names = _names()
    a, b, r0, anchor0, r1, anchor1, ext = args
    A, B = names[a], names[b]
    if "." in A or "." in B:
        ext = True
    text, want = build(A, B, r0, anchor0, r1, anchor1)
    rf = importlib.reload(importlib.import_module("zorg.app.runners._run_file"))
    with zreal.TempZdir("c14r") as z:
        files = {A + ".zo": "# page A\n\n- 240101#02 self [[" + A + "]]\n", "n.zo": text, "t/m.zot": text,
                 "zoq/s.zoq": text, "r.txt": text}
        for rel, content in files.items():
            (z / rel).parent.mkdir(parents=True, exist_ok=True)
            (z / rel).write_text(content)
        (z / (B + ".zo")).parent.mkdir(parents=True, exist_ok=True)
        cfg = SimpleNamespace(zettel_dir=z, src_name=A + (".zo" if ext else ""), dest_name=B + (".zo" if ext else ""))
        err = None
        try:
            rc = rf.run_file_rename(cfg)
        except Exception as e:  # noqa
            rc, err = None, "%s: %s" % (type(e).__name__, e)
        after = {str(p.relative_to(z)): p.read_text() for p in z.rglob("*") if p.is_file()}
    expect = {B + ".zo": "# page A\n\n- 240101#02 self [[" + B + "]]\n", "n.zo": want, "t/m.zot": want, "zoq/s.zoq": want,
              "r.txt": text}
    bad = err is not None or rc != 0 or after != expect
    diff = {k: (after.get(k), expect.get(k)) for k in set(after) | set(expect) if after.get(k) != expect.get(k)}
    return bad, {"summary": "file rename %r -> %r (extension %s): %s" % (
        A, B, "given" if ext else "omitted", err or ("files differ from expectation: %r" % (diff,))),
        "before": files, "after": after, "expected": expect}


def main():
    tier = sys.argv[1] if len(sys.argv) > 1 else "quick"
    seed = int(sys.argv[2]) if len(sys.argv) > 2 else 0
    rep = Report("C14", tier, seed)
    names = _names()
    rep.describe(
        explanation=(
            "CrossHair/z3 symbolic execution of the real run_file_rename (+ simplify_fname / strip_zdir) over an in-memory "
            "directory with the renamed page, a .zo, a .zot (sub-directory), a .zoq and a .txt file, each carrying two links "
            "whose page names relate to the renamed page A as: A itself, A+suffix, prefix+A, A/sub, sub/A, A.pdf, A:x, A+, A-x, A x, unrelated, the new "
            "name B; with and without #anchor; names given with or without the .zo extension. Oracle: file moved, exactly the "
            "links to A retargeted (anchor kept), every other byte and the .txt file unchanged."),
        functions=["zorg.app.runners._run_file.run_file_rename", "zorg.shared.common.simplify_fname", "zorg.shared.common.strip_zdir"],
        stubs=["c.prepend_zdir / c.get_all_zfiles over an in-memory FS (rename, read_text, write_text); replay uses real pathlib"],
        bounds=["page names: %r (every 1-2 letter name over {a,o,z} + specials), B = the next name in that list" % (names,),
                "12 link-name relations for the first link (A, A extended / prefixed by a letter, by a path segment, by '.pdf' ':x' '+' '-x' ' x', unrelated, B), {A, unrelated} for the second, anchors on/off, extension on/off"],
        outside=["names containing the text of the zettel dir path; link text outside well-formed [[name]] / [[name#anchor]]",
                 "more than two links per file; symbolic page names (str.replace on symbolic strings is beyond CrossHair's reach: "
                 "8 paths in 120 s)"])
    T = 150 if tier == "quick" else 500
    conds = []
    step = 2
    for lo in range(0, len(names), step):
        conds.append(xh.Cond(H, "rename_menu", timeout=T, env={"XH_A": "%d-%d" % (lo, min(len(names), lo + step))},
                             meta={"variant": "names[%d:%d]" % (lo, lo + step), "family": "rename",
                                   "bound": "A in %r" % (names[lo:lo + step],)}))
    conds.append(xh.Cond(H, "rename_menu", timeout=30, twin=True, env={"XH_A": "0-2"}, meta={"variant": "names[0:2]", "family": "twin"}))
    results = xh.run_all(conds)
    handle_xh(rep, results, replayer)
    rep.sample({"A": "todo", "B": "memo", "file": build("todo", "memo", 1, True, 0, False)[0]})
    sys.exit(rep.finish())


if __name__ == "__main__":
    main()
