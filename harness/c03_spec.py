"""C03: the meaning of a WHERE filter on one indexed note, written directly from the property statement as a z3
formula over the symbolic database of vlib/sql2smt.py, plus the database well-formedness constraints (the
invariants every real index satisfies) and the filter shapes."""
import datetime as dt

import z3

from vlib.sql2smt import ANY, contains_regex, day
from zorg.domain.models import (DateRange, DescFilter, FileFilter, LinkFilter, PropertyFilter, WhereAndFilter,
                                WhereOrFilter)
from zorg.domain.types import DescOperator, NoteType, PropertyOperator, PropertyValueType

STATUS_NAMES = ["OPEN_TODO", "CLOSED_TODO", "CANCELED_TODO", "BLOCKED_TODO", "PARENT_TODO"]
PRINTABLE = z3.Star(z3.Range(" ", "~"))
MAXLEN = 6


def S(s):
    return z3.StringVal(s)


# ------------------------------------------------------------------ well-formedness (index invariants; part of the bound)
def well_formed(db, typed_keys=None):
    cs = []
    R = db.rows
    for t, rows in R.items():
        for r in rows:
            for col, term in r.cols.items():
                if z3.is_string(term) and col not in ("todo_status", "todo_priority", "zid"):
                    cs += [z3.InRe(term, PRINTABLE), z3.Length(term) <= MAXLEN]
                elif z3.is_int(term):
                    cs += [term >= 0, term <= 30000]
        # primary keys
        if "id" in rows[0].cols:
            cs += [z3.Implies(z3.And(a.present, b.present), a.cols["id"] != b.cols["id"])
                   for i, a in enumerate(rows) for b in rows[i + 1:]]
            cs += [r.cols["id"] >= 1 for r in rows]
        else:
            k1, k2 = list(rows[0].cols)[:2]
            cs += [z3.Implies(z3.And(a.present, b.present), z3.Or(a.cols[k1] != b.cols[k1], a.cols[k2] != b.cols[k2]))
                   for i, a in enumerate(rows) for b in rows[i + 1:]]
    for n in R["note"]:
        # every indexed note belongs to exactly one indexed page
        cs.append(z3.Implies(n.present, z3.Or(*[z3.And(p.present, p.cols["path"] == n.cols["page_path"]) for p in R["page"]])))
        cs.append(n.nulls["todo_status"] == n.nulls["todo_priority"])
        cs.append(z3.Or(n.nulls["todo_status"], *[n.cols["todo_status"] == S(x) for x in STATUS_NAMES]))
        cs.append(z3.Or(n.nulls["todo_priority"], *[n.cols["todo_priority"] == S("P%d" % i) for i in range(10)]))
        cs.append(z3.InRe(n.cols["zid"], z3.Concat(z3.Loop(z3.Range("0", "9"), 2, 2), z3.Re("#"), z3.Range("0", "9"))))
    cs += [z3.Implies(z3.And(a.present, b.present), a.cols["path"] != b.cols["path"])
           for i, a in enumerate(R["page"]) for b in R["page"][i + 1:]]
    cs += [z3.Implies(z3.And(a.present, b.present), a.cols["zid"] != b.cols["zid"])
           for i, a in enumerate(R["note"]) for b in R["note"][i + 1:]]
    for p in R["page"]:
        cs.append(z3.SuffixOf(S(".zo"), p.cols["path"]))
    # tag / property / link names are unique per table (the converters share rows by name)
    for t in ("area", "context", "person", "project", "property", "link"):
        cs += [z3.Implies(z3.And(a.present, b.present), a.cols["name"] != b.cols["name"])
               for i, a in enumerate(R[t]) for b in R[t][i + 1:]]
    for pl in R["propertylink"]:
        # foreign keys of a property link point at indexed rows
        cs.append(z3.Implies(pl.present, z3.Or(*[z3.And(p.present, p.cols["id"] == pl.cols["prop_id"]) for p in R["property"]])))
        cs.append(z3.Implies(pl.present, z3.Or(*[z3.And(n.present, n.cols["id"] == pl.cols["note_id"]) for n in R["note"]])))
        v = pl.cols["value"]
        cs += [v.kind >= 0, v.kind <= 2, v.int >= 0, v.int <= 30000, v.date >= 0, v.date <= 30000,
               z3.InRe(v.text, PRINTABLE), z3.Length(v.text) <= MAXLEN]
        # a property value of the filter's key has the filter's value type (mixed-type comparisons are not judged)
        tk = dict(typed_keys or {})
        tk.setdefault("ID", 2)       # ID / RID values are plain text (they are spliced into link names)
        tk.setdefault("RID", 2)
        for key, kind in tk.items():
            for p in R["property"]:
                cs.append(z3.Implies(z3.And(pl.present, p.present, pl.cols["prop_id"] == p.cols["id"], p.cols["name"] == S(key)),
                                     v.kind == kind))
    return cs


# ------------------------------------------------------------------ the statement as a formula
def has_tag(db, n, table, name):
    link, fk = table + "link", {"area": "area_id", "context": "context_id", "person": "person_id", "project": "project_id"}[table]
    return z3.Or(*[z3.And(l.present, a.present, l.cols["note_id"] == n.cols["id"], l.cols[fk] == a.cols["id"], a.cols["name"] == S(name))
                   for l in db.rows[link] for a in db.rows[table]])


def glob_regex(glob, ci):
    parts = []
    for ch in glob:
        if ch == "*":
            parts.append(z3.Star(ANY))
        elif ci and ch.isascii() and ch.isalpha():
            parts.append(z3.Union(z3.Re(S(ch.lower())), z3.Re(S(ch.upper()))))
        else:
            parts.append(z3.Re(S(ch)))
    return parts[0] if len(parts) == 1 else z3.Concat(*parts)


def prop_cmp(v, pf):
    """the filter's comparison on a property value of the filter's type"""
    from zorg.shared import dates as zdt
    vt = pf.value_type
    if vt is PropertyValueType.DATE:
        a, b = v.date, z3.IntVal(day(zdt.from_date_spec(pf.value)))
    elif vt is PropertyValueType.INTEGER:
        a, b = v.int, z3.IntVal(int(pf.value))
    else:
        a, b = v.text, S(pf.value)
    return {PropertyOperator.EQ: a == b, PropertyOperator.LT: a < b, PropertyOperator.LE: a <= b,
            PropertyOperator.GT: a > b, PropertyOperator.GE: a >= b}[pf.op]


def spec_and(f, db, n):
    R = db.rows
    conj = []
    if f.allowed_note_types:
        alts = []
        for t in f.allowed_note_types:
            if t is NoteType.BASIC:
                alts.append(n.nulls["todo_status"])
            else:
                alts.append(z3.And(z3.Not(n.nulls["todo_status"]), n.cols["todo_status"] == S(t.name)))
        conj.append(z3.Or(*alts))
    if f.priorities:
        conj.append(z3.Or(*[z3.And(z3.Not(n.nulls["todo_priority"]), n.cols["todo_priority"] == S(p)) for p in f.priorities]))
    for names, table in ((f.areas, "area"), (f.contexts, "context"), (f.people, "person"), (f.projects, "project")):
        for t in names:
            neg = t.startswith("-")
            h = has_tag(db, n, table, t[1:] if neg else t)
            conj.append(z3.Not(h) if neg else h)
    for ranges, col in ((f.create_date_ranges, "create_date"), (f.modify_date_ranges, "modify_date")):
        for r in ranges:
            end = r.end if r.end else r.start
            conj.append(z3.And(n.cols[col] >= day(r.start), n.cols[col] <= day(end)))
    for pf in f.property_filters:
        def exists(extra):
            return z3.Or(*[z3.And(pl.present, p.present, pl.cols["note_id"] == n.cols["id"], pl.cols["prop_id"] == p.cols["id"],
                                  p.cols["name"] == S(pf.key), extra(pl.cols["value"])) for pl in R["propertylink"] for p in R["property"]])
        if pf.op is PropertyOperator.EXISTS:
            e = exists(lambda v: z3.BoolVal(True))
            conj.append(z3.Not(e) if pf.negated else e)
        elif pf.negated:
            conj.append(exists(lambda v: z3.Not(prop_cmp(v, pf))))       # still requires the property to exist
        else:
            conj.append(exists(lambda v: prop_cmp(v, pf)))
    for d in f.desc_filters:
        cs = d.case_sensitive
        if cs is None:
            cs = not d.value.islower()          # smart case: case-insensitive iff the text is all lower case
        m = z3.InRe(n.cols["body"], contains_regex(d.value, ci=not cs))
        conj.append(z3.Not(m) if d.op is DescOperator.NOT_CONTAINS else m)
    for ff in f.file_filters:
        # '*' matches any run of characters, everything else stands for itself (letter case: not judged, folded)
        m = z3.InRe(n.cols["page_path"], glob_regex(ff.path_glob, ci=True))
        conj.append(z3.Not(m) if ff.negated else m)
    for lf in f.link_filters:
        target = lf.link
        alts = []
        for ll in R["linklink"]:
            for l in R["link"]:
                base = z3.And(ll.present, l.present, ll.cols["note_id"] == n.cols["id"], ll.cols["link_id"] == l.cols["id"])
                name = l.cols["name"]
                # direct link, or link to an anchor of the page (letter case of the page name in the anchor form: folded on
                # both sides, not judged - SQLite's LIKE folds ASCII case)
                ways = [name == S(target), z3.InRe(name, z3.Concat(glob_regex(target + "#", ci=True), z3.Star(ANY)))]
                for m_ in R["note"]:
                    in_page = z3.And(m_.present, m_.cols["page_path"] == S(target + ".zo"))
                    ways.append(z3.And(in_page, name == z3.Concat(S("zid:"), m_.cols["zid"])))
                    for pl in R["propertylink"]:
                        for p in R["property"]:
                            own = z3.And(in_page, pl.present, p.present, pl.cols["note_id"] == m_.cols["id"], pl.cols["prop_id"] == p.cols["id"])
                            ways.append(z3.And(own, p.cols["name"] == S("ID"), name == z3.Concat(S("global:"), pl.cols["value"].text)))
                            ways.append(z3.And(own, p.cols["name"] == S("RID"), name == z3.Concat(S("ref:"), pl.cols["value"].text)))
                alts.append(z3.And(base, z3.Or(*ways)))
        m = z3.Or(*alts)
        conj.append(z3.Not(m) if lf.negated else m)
    for sub in f.or_filters:
        conj.append(spec_or(sub, db, n))
    return z3.And(*conj) if conj else z3.BoolVal(True)


def spec_or(orf, db, n):
    return z3.Or(*[spec_and(f, db, n) for f in orf.and_filters])


def typed_keys_of(orf):
    out = {}
    for f in orf.and_filters:
        for pf in f.property_filters:
            if pf.op is not PropertyOperator.EXISTS:
                out[pf.key] = {PropertyValueType.DATE: 0, PropertyValueType.INTEGER: 1, PropertyValueType.STRING: 2}[pf.value_type]
        for sub in f.or_filters:
            out.update(typed_keys_of(sub))
    return out


# ------------------------------------------------------------------ filter shapes
def A(**kw):
    return WhereAndFilter(**kw)


def shapes(tier):
    T = NoteType
    out = []

    def add(name, *ands):
        out.append((name, WhereOrFilter(list(ands))))
    for t in T:
        add("kind-" + t.name, A(allowed_note_types={t}))
    add("kind-open+done", A(allowed_note_types={T.OPEN_TODO, T.CLOSED_TODO}))
    add("kind-basic+open", A(allowed_note_types={T.BASIC, T.OPEN_TODO}))
    add("kind-all", A(allowed_note_types=set(T)))
    add("prio-P0", A(priorities={"P0"}))
    add("prio-P1-2", A(priorities={"P1", "P2"}))
    for attr in ("areas", "contexts", "people", "projects"):
        add("tag-%s-pos" % attr, A(**{attr: {"ta"}}))
        add("tag-%s-neg" % attr, A(**{attr: {"-ta"}}))
    add("tag-two", A(areas={"ta", "tb"}))
    add("tag-pos-neg", A(areas={"ta", "-tb"}, contexts={"-tc"}))
    # a negated tag of one kind next to a positive tag of another kind, in both orders of kinds (the converter walks the
    # kinds in a fixed order: whatever one tag sets up must not leak into the next)
    kinds = ("areas", "contexts", "people", "projects")
    for i, ka in enumerate(kinds):
        for kb in kinds[i + 1:]:
            add("tag-neg-%s-pos-%s" % (ka, kb), A(**{ka: {"-ta"}, kb: {"tb"}}))
            add("tag-pos-%s-neg-%s" % (ka, kb), A(**{ka: {"ta"}, kb: {"-tb"}}))
    add("tag-neg-pos-same-kind-3", A(areas={"-ta", "tb", "tc"}))
    d1, d2 = dt.date(2024, 4, 8), dt.date(2024, 5, 9)
    add("create-day", A(create_date_ranges={DateRange(d1)}))
    add("create-range", A(create_date_ranges={DateRange(d1, d2)}))
    add("modify-range", A(modify_date_ranges={DateRange(d1, d2)}))
    add("create+modify", A(create_date_ranges={DateRange(d1, d2)}, modify_date_ranges={DateRange(d2)}))
    P, O, V = PropertyFilter, PropertyOperator, PropertyValueType
    for neg in (False, True):
        add("prop-exists-%s" % neg, A(property_filters={P("k", "", op=O.EXISTS, negated=neg)}))
        for op in (O.EQ, O.LT, O.LE, O.GT, O.GE):
            add("prop-%s-int-%s" % (op.name, neg), A(property_filters={P("k", "5", op=op, value_type=V.INTEGER, negated=neg)}))
            add("prop-%s-date-%s" % (op.name, neg), A(property_filters={P("due", "2024-03-13", op=op, value_type=V.DATE, negated=neg)}))
            add("prop-%s-str-%s" % (op.name, neg), A(property_filters={P("k", "ab", op=op, value_type=V.STRING, negated=neg)}))
    add("prop-two", A(property_filters={P("k", "5", op=O.GT, value_type=V.INTEGER), P("j", "", op=O.EXISTS, negated=True)}))
    D = DescFilter
    # (LIKE's metacharacters % _ \\ and GLOB's * ? [ ] both as plain text, in lower-case = case-insensitive and with an
    # upper-case letter = case-sensitive spellings)
    for text in ("foo", "a_b", "50%", "a\\b", "%", "_", "fo o", "Fo", "F_o", "A%", "1_2", "a[i]", "A[i]", "F*o", "A?", "[", "B]"):
        for op in (DescOperator.CONTAINS, DescOperator.NOT_CONTAINS):
            add("desc-%s-%s" % ("".join("%02x" % ord(c) for c in text), op.name), A(desc_filters={D(text, op=op)}))
    add("desc-cs-explicit", A(desc_filters={D("fo", case_sensitive=True)}))
    add("desc-cs-explicit-not", A(desc_filters={D("f_", case_sensitive=True, op=DescOperator.NOT_CONTAINS)}))
    add("desc-two", A(desc_filters={D("foo"), D("bar", op=DescOperator.NOT_CONTAINS)}))
    for glob in ("a.zo", "*s.zo", "p*", "*p*", "a_b.zo", "d/*", "d/a.zo", "*_x.zo"):
        for neg in (False, True):
            add("file-%s-%s" % ("".join("%02x" % ord(c) for c in glob), neg), A(file_filters={FileFilter(glob, negated=neg)}))
    for link in ("pg", "d/pg"):
        for neg in (False, True):
            add("link-%s-%s" % (link.replace("/", "_"), neg), A(link_filters={LinkFilter(link, negated=neg)}))
    # composites: the combinators are generic code, so these mainly check the and_/or_/nesting wiring
    a1, a2, a3 = A(areas={"ta"}), A(allowed_note_types={T.OPEN_TODO}, priorities={"P1"}), A(contexts={"-tc"}, desc_filters={D("foo")})
    add("or-2", a1, a2)
    add("or-3", a1, a2, a3)
    add("and-nest", A(areas={"ta"}, or_filters=[WhereOrFilter([a2, a3])]))
    add("and-nest2", A(or_filters=[WhereOrFilter([a1, a2]), WhereOrFilter([a3, A(projects={"tp"})])]))
    add("nest-deep", A(priorities={"P1"}, or_filters=[WhereOrFilter([A(areas={"ta"}, or_filters=[WhereOrFilter([a3, a2])]), a1])]),
        A(file_filters={FileFilter("p*")}))
    return out


# ------------------------------------------------------------------ known findings as predicates over (filter, database)
KNOWN_PREDICATES = {}
