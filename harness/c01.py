"""C01 — Compiling a page yields exactly the notes written in it.   (DESIGN.md §3)

Engine XH on "skeleton + holes": every page of the skeleton set is parsed concretely with the real
ZorgFileLexer/ZorgFileParser; the real ParseTreeWalker + ZorgFileCompiler then run under CrossHair
with the hole tokens' texts symbolic; the compiled notes are compared field by field with an oracle
computed from the abstract page.  Engine ATN proves, on the real lexer ATN, that every hole class
lexes as exactly one token of the type the skeleton was parsed with and that holes delimited by
SPACE / NL cannot merge with their neighbours.
Replay: the substituted page text in a real file through walk_zorg_page.
"""
import os as _os
_os.environ["XH_NO_PATCH"] = "1"   # this process replays on the real code: never patch zorg here

import os
import shutil
import sys
import tempfile

import z3

from vlib import atn, gen, xh
from vlib.driver import Report, handle_xh, known_findings
from harness import c01_common as cm


# ------------------------------------------------------------------ generated harness module
def generate(tier, seed, check_fn="check_c01", specs=None, modname="c01_gen", header_extra="", header=None):
    specs = specs if specs is not None else cm.all_specs(tier, seed)
    funcs = []
    groups = {}
    for i, s in enumerate(specs):
        if not s.holes():
            groups.setdefault(s.name.rsplit("-", 1)[0], []).append(i)
            continue
        args, pres, vals = [], [], []
        for h in s.holes():
            a_, p_, v_ = cm.wrapper_args(h, cm.MAXLEN[tier])
            args += a_
            pres += p_
            vals.append('"%s": %s' % (h.name, v_))
        vals = "{" + ", ".join(vals) + "}"
        funcs.append(("sk_%d" % i, args, pres, ["return V(%s(%d, %s))" % (check_fn, i, vals)]))
    # skeletons without holes (type-changing words): one condition per group, the member index is the argument
    entries = [(f[0], [int(f[0].split("_")[1])]) for f in funcs]
    for gname, members in groups.items():
        funcs.append(("grp_%d" % members[0], [("i", "int")], ["0 <= i < %d" % len(members)],
                      ["return V(%s(cm.pick(%r, i), {}))" % (check_fn, members)]))
        entries.append(("grp_%d" % members[0], members))
    d = gen.gen_dir()
    path = gen.write_module(os.path.join(d, modname + ".py"),
                            header or ("from harness.c01_rt import *  # noqa: F401,F403\n"
                                       "from harness.c01_rt import SPECS, N, cm, %s\n%s" % (check_fn, header_extra)), funcs)
    return d, path, specs, entries


def values_from_call(spec, args, tier):
    """rebuild the hole texts from a counterexample's argument list (same order as wrapper_args)"""
    vals, k = {}, 0
    for h in spec.holes():
        a_, _p, expr = cm.wrapper_args(h, cm.MAXLEN[tier])
        env = {"cm": cm}
        for (an, _t) in a_:
            env[an] = args[k]
            k += 1
        vals[h.name] = eval(expr, env)
    return vals


def real_compile(text):
    from pathlib import Path
    from freezegun import freeze_time
    from zorg.service.compiler import walk_zorg_page
    d = tempfile.mkdtemp(prefix="c01r")
    try:
        p = Path(d) / "p.zo"
        p.write_text(text)
        with freeze_time(cm.TODAY.strftime("%Y-%m-%d") + " 10:00:00"):
            try:
                page = walk_zorg_page(Path(d), p)
            except Exception as e:  # noqa
                return None, "%s: %s" % (type(e).__name__, e)
        return page, None
    finally:
        shutil.rmtree(d, ignore_errors=True)


def make_replayer(specs, tier):
    from vlib import skel

    def replayer(name, args, kwargs, meta):
        i = int(name.split("_")[1])
        if name.startswith("grp_"):
            i = meta["members"][args[0]]
        spec = specs[i]
        vals = values_from_call(spec, list(args), tier) if spec.holes() else {}
        text, holes = skel.assemble(spec.parts())
        out, pos = "", 0
        for off, h in holes:
            out += text[pos:off] + vals[h.name]
            pos = off + len(h.default)
        out += text[pos:]
        page, err = real_compile(out)
        if err:
            return True, {"summary": "compiling the page %r raises %s" % (out, err), "page": out}
        notes = page.notes
        items = spec.items()
        if page.has_errors or len(notes) != len(items):
            return True, {"summary": "page %r compiles to %d notes (has_errors=%s), %d items written" % (
                out, len(notes), page.has_errors, len(items)), "page": out}
        for n, (item, ln) in zip(notes, items):
            exp = cm.expect_note(item, ln, vals)
            got = cm.note_view(n)
            for k in exp:
                if got[k] != exp[k]:
                    return True, {"summary": "page %r: note on line %d has %s=%r, written: %r" % (out, ln, k, got[k], exp[k]),
                                  "page": out, "got": got, "expected": exp}
        return False, {"summary": "page %r compiles as written" % out}
    return replayer


# ------------------------------------------------------------------ ATN obligations for the hole classes
def z_chars(chars):
    return z3.Union(*[z3.Re(c) for c in chars]) if len(chars) > 1 else z3.Re(chars)


def class_regexes(n):
    alnum = z_chars(cm.ALNUM)
    alnum_ = z_chars(cm.ALNUM + "_")
    dig = z_chars(cm.DIG)
    body = z3.Concat(alnum, z3.Loop(alnum_, 0, n - 1)) if n > 1 else alnum
    time_ = z3.Concat(z_chars("012"), dig, z_chars("012345"), dig)
    excl = z3.Union(z3.Re("o"), z3.Re("x"), z3.Re("http"), z3.Re("https"), z3.Concat(z3.Re("P"), dig), time_)
    zc = z_chars(cm.ZIDCH)
    return {
        "id": (z3.Intersect(body, z3.Complement(excl)), "ID"),
        "pri": (z3.Concat(z3.Re("P"), dig), "PRIORITY"),
        "d6": (z3.Concat(dig, dig, dig, dig, dig, dig), "ID"),
        "zid": (z3.Concat(dig, dig, z_chars("01"), dig, z_chars("0123"), dig, z3.Re("#"), zc, zc, z3.Option(zc)), "ZID"),
        "ldate": (z3.Concat(z3.Re("2"), dig, dig, dig, z3.Re("-"), z_chars("01"), dig, z3.Re("-"), z_chars("0123"), dig), "DATE"),
    }


def atn_obligations(rep, tier):
    from zorg.grammar.zorg_file.ZorgFileLexer import ZorgFileLexer
    m = atn.LexerModel(ZorgFileLexer)
    q = atn.Queries(m)
    import glob
    texts = [open(f, errors="ignore").read() for f in sorted(glob.glob("/repo/tests/**/*.zo", recursive=True))[:40]]
    n, bad = atn.validate_against_lexer(m, texts)
    rep.note("ZorgFileLexer: ATN->regex validated on %d real tokens of the repository's pages, %d mismatches" % (n, len(bad)))
    if bad:
        rep.harness_error("ATN->regex translation disagrees with the real lexer: %r" % (bad[:3],))
    recs = []
    for kind, (rx, rule) in class_regexes(cm.MAXLEN[tier]).items():
        recs.append((q.class_included("class(%s) hole <= class(%s)" % (kind, rule), rx, rule), "unsat"))
    for w in cm.ID_MENU:
        toks, nerr = m.lex(w)
        if nerr or len(toks) != 1 or toks[0][0] != "ID":
            rep.harness_error("menu word %r does not lex as one ID token: %r" % (w, toks))
    recs.append((q.no_rule_spans("no token rule but SPACE contains a space", " "), "unsat"))
    recs.append((q.only_rule_with("no token rule but NL contains a line feed", "\n", "NL"), "unsat"))
    # negative control: the ID class WITHOUT its exclusions must fail (o, x, P5, 1230 are other tokens)
    alnum = z_chars(cm.ALNUM)
    ctrl = q.class_included("control: unrestricted [A-Za-z0-9]{1,2} <= class(ID)", z3.Concat(alnum, z3.Option(alnum)), "ID")
    if ctrl["result"] != "sat":
        rep.harness_error("negative control did not come back sat")
    else:
        rep.add(ctrl["name"], "z3-regex", "reachable", "control sat, witness %r" % (ctrl["witness"],), ctrl["s"], family="atn")
    for rec, want in recs:
        if rec["result"] == "unsat":
            rep.add(rec["name"], "z3-regex", "unsat", "holds for strings of any length in the class", rec["s"], family="atn")
        elif rec["result"] == "sat":
            rep.add(rec["name"], "z3-regex", "sat", "witness %r" % (rec["witness"],), rec["s"], family="atn")
            rep.harness_error("hole class obligation %s is sat (%r): the skeleton engine's premise fails" % (rec["name"], rec["witness"]))
        else:
            rep.add(rec["name"], "z3-regex", "inconclusive", rec["result"], rec["s"], family="atn")


def main():
    tier = sys.argv[1] if len(sys.argv) > 1 else "quick"
    seed = int(sys.argv[2]) if len(sys.argv) > 2 else 0
    rep = Report("C01", tier, seed)
    gdir, path, specs, entries = generate(tier, seed)
    try:
        rep.describe(
            explanation=(
                "Skeleton + holes: %d pages (110 single-item core pages = 6 kinds x priority x 5 first-word layouts x one/multi "
                "line; 30 pages whose ZID / six-digit word / long date token is the hole; a seeded sample of multi-item, "
                "multi-block, sectioned pages whose body words come from the type-changing vocabulary) are parsed with the real "
                "lexer and parser; the real ParseTreeWalker and ZorgFileCompiler run under CrossHair/z3 with the hole tokens' "
                "texts symbolic; every compiled note is compared with the oracle (kind, priority, body, line, ZID, creation and "
                "modification date). z3 regex queries on the real lexer ATN prove that every hole class lexes as one token of "
                "the skeleton's type and that SPACE/NL-delimited holes cannot merge with neighbours." % len(specs)),
            functions=["ZorgFileLexer/ZorgFileParser (concretely, per skeleton)", "antlr4.ParseTreeWalker",
                       "zorg.service.compiler._file_compiler.ZorgFileCompiler (all enter*/exit*, _add_note, _get_note_kwargs, "
                       "_ZorgFileCompilerState)", "zorg.shared.dates.is_short_date_spec/from_short_date_spec/is_zid",
                       "zorg.domain.models.Page.notes", "ZorgFileLexer.atn (hole classes)"],
            stubs=["strptime model for %Y%m%d / %Y-%m-%d (validated on replay)", "clock = 2024-05-10", "module loggers silent"],
            bounds=["skeleton set: %d pages (list in coverage.conditions); seeded part from VERIF_SEED=%d" % (len(specs), seed),
                    "body-word hole: ID-class strings of length <= %d over [A-Za-z0-9_] on single-line items; a menu %r on items "
                    "with continuation lines / in multi-item pages (the text reaches strip/split, where CrossHair realises)" % (
                        cm.MAXLEN[tier], cm.ID_MENU),
                    "priority hole: any digit", "ZID / six-digit / long-date holes: date part from the menu %r (one per calendar class), "
                    "ZID suffix of 2 or 3 characters; thorough adds month digits symbolic (day 10, year 24) and day digits symbolic in "
                    "February 2023/2024" % (cm.DATE_MENU,)],
            outside=["page shapes not in the skeleton set; hole texts longer than the bound; underscore-only differences beyond the "
                     "class; non-ASCII text; \\r\\n line ends; files that do not decode",
                     "forms the statement leaves open (date inside a link/tag in first position, two dates in one item)"])
        T = 75 if tier == "quick" else 240
        TL = 75 if tier == "quick" else 480
        env = {"XH_TIER": tier, "XH_SEED": seed}
        conds = []
        for fname, members in entries:
            s = specs[members[0]]
            heavy = s.name.startswith("layout-")
            conds.append(xh.Cond(path, fname, timeout=TL if heavy else T, env=env,
                                 meta={"variant": s.name if len(members) == 1 else s.name.rsplit("-", 1)[0] + "-*",
                                       "family": s.name.split("-")[0], "members": members,
                                       "bound": ("holes " + ", ".join("%s:%s" % (h.name, h.kind) for h in s.holes())) if len(members) == 1
                                       else "%d hole-less skeletons (type-changing words, one skeleton each)" % len(members)}))
        conds.append(xh.Cond(path, "sk_0", timeout=30, twin=True, env=env, meta={"variant": specs[0].name, "family": "twin"}))
        li = [i for i, s in enumerate(specs) if s.name.startswith("layout-")][1]
        conds.append(xh.Cond(path, "sk_%d" % li, timeout=60, twin=True, env=env, meta={"variant": specs[li].name, "family": "twin"}))
        results = xh.run_all(conds)
        handle_xh(rep, results, make_replayer(specs, tier))
        atn_obligations(rep, tier)
        from vlib import skel
        for s in (specs[0], specs[57], specs[-1]):
            rep.sample({"skeleton": s.name, "text": skel.assemble(s.parts())[0], "holes": [repr(h) for h in s.holes()]})
    finally:
        shutil.rmtree(gdir, ignore_errors=True)
    sys.exit(rep.finish())


if __name__ == "__main__":
    main()
