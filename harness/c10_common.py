"""C10: page layouts and the property oracle, shared by the CrossHair harness (c10_h.py) and the replay
(c10.py).  No zorg module is patched here."""
from zorg.domain.types import NoteType

ZDIR = "/z"
TEMPLATE_TEXT = "# new page\n\n"
Z1, Z2, Z3 = "240101#01", "240101#02", "240202#0A"
# the note to move: (first line after the kind prefix, continuation lines)
NOTE_FORMS = [
    ("- %s alpha" % Z1, []),
    ("o P1 %s alpha beta" % Z1, []),
    ("o %s alpha" % Z1, ["  * bullet one", "  * k:: v"]),
    ("- 240105 %s alpha #own" % Z1, ["  continuation"]),
    ("< P4 %s alpha" % Z1, []),
]
OTHER = "- %s other" % Z2
MENTION = "- %s see %s for more" % (Z2, Z1)
MENTION_END = "- %s see %s" % (Z2, Z1)           # ZID at the end of the line (no trailing space)
MENTION_LINK = "- %s see [%s] there" % (Z2, Z1)   # zid link: ' ZID ' does not occur
# source layouts: list of lines with "N" standing for the note's lines
SRC_LAYOUTS = [
    ["# t #ta @tc", "", "N", ""],
    ["# t #ta", "", OTHER, "N", ""],
    ["# t", "", "N", OTHER, ""],
    ["# t +tp", "", OTHER, "", "N", ""],
    ["# t", "# [hk:: hv]", "", "=" * 24 + " S %tq", "N", OTHER, ""],
    ["# t #ta", "", "N", MENTION_LINK, ""],
    ["# t", "", "N", MENTION, ""],
    ["# t", "", MENTION, "N", ""],          # the ZID is mentioned by an EARLIER note
    ["# t", "", MENTION_END, "N", ""],
    ["# t", "", "- %sA sibling whose ZID extends the moved one" % Z1, "N", "- %sB another" % Z1, ""],
    # characters str.splitlines() breaks at but the page format does not (FF, LS) in a note ABOVE the moved one
    ["# t", "", "- %s al\x0cpha\u2028one" % Z2, "N", "- 240101#03 below", ""],
]
DST_LAYOUTS = [
    None,                                   # missing: created from the template (or not)
    ["# d", ""],
    ["# d", "", "- %s a" % Z3, ""],
    ["# d", "", "- %s a" % Z3, "", "=" * 24 + " S", "- 240202#0B b", ""],
    ["# d", "", "- %s a" % Z3, "  * c", "", "# comment", ""],
    ["# d", "", "- %s a" % Z3, "", "=" * 24 + " S"],   # valid page without trailing newline (ends in a header)
    ["# d", "", "- %s a" % Z3, "  more"],   # INVALID page (item without newline): still nothing may be lost
    "SAME",                                 # destination is the source page
]
MARKERS = [None, "x", "~"]


def build_src(layout_i, form_i):
    first, cont = NOTE_FORMS[form_i]
    lines = []
    for ln in SRC_LAYOUTS[layout_i]:
        if ln == "N":
            lines.append(first)
            lines.extend(cont)
        else:
            lines.append(ln)
    return lines, [first] + cont


def note_key(n):
    return (n.zid, n.todo_payload.status if n.todo_payload else None, n.body)


def remove_block(lines, block):
    """all ways of removing one contiguous occurrence of block from lines"""
    out = []
    k = len(block)
    for i in range(0, len(lines) - k + 1):
        if lines[i:i + k] == block:
            out.append(lines[:i] + lines[i + k:])
    return out


def judge(ob, compile_text):
    """the property, on concrete observations; returns (ok, reason)"""
    if ob["rc"] != 0:
        # an unsuccessful move must not have touched anything
        ok = ob["new_src_text"] == "\n".join(ob["src_lines"]) and not ob["writes"]
        return ok, "failed move changed files"
    new_src = ob["new_src_text"].split("\n")
    indexed = ob["indexed"]
    # text of the moved note as the statement describes it
    same = ob["dst_same"]
    k = len(ob["note_lines"])
    if same:
        # destination = source page: the note's lines leave their place and ONE block of the same length is added
        bases = remove_block(ob["src_lines"], ob["note_lines"])
        ok = False
        for i in range(0, len(new_src) - k + 1):
            rest = new_src[:i] + new_src[i + k:]
            if any(rest in (b, b + [""], b + ["", ""]) for b in bases):
                ok = True
        if not ok:
            return False, "the page is not the old page minus the note's lines plus one inserted block of %d lines" % k
        page_s, e1 = compile_text("\n".join(new_src), "src.zo")
        if e1:
            return False, "the page no longer parses: %r" % (e1[:1],)
        new_notes = list(page_s.notes)
        moved = [n for n in page_s.notes if n.zid == Z1]
        if len(moved) != 1:
            return False, "moved note %d times on its page" % len(moved)
    else:
        new_dst = ob["new_dst_text"].split("\n")
        base_dst = ob["dst_lines"] if ob["dst_lines"] is not None else TEMPLATE_TEXT.split("\n")
        # (1) source: old lines minus exactly the note's lines
        if new_src not in remove_block(ob["src_lines"], ob["note_lines"]):
            return False, "source page is not the old page minus the note's lines"
        # (2) destination: old lines with ONE contiguous block of len(note_lines) lines inserted, nothing removed
        cands = []
        for i in range(0, len(new_dst) - k + 1):
            rest = new_dst[:i] + new_dst[i + k:]
            if rest in (base_dst, base_dst + [""], base_dst + ["", ""]):
                cands.append(new_dst[i:i + k])
        if not cands:
            return False, "destination is not the old page plus one inserted block of %d lines" % k
        if not ob["dst_valid"]:
            return True, "destination was not a valid page: only the line-level clauses apply"
        # (3) recompilation
        page_s, e1 = compile_text("\n".join(new_src), "src.zo")
        page_d, e2 = compile_text("\n".join(new_dst), "dst.zo")
        if e1 or e2:
            return False, "a page no longer parses: %r %r" % (e1[:1], e2[:1])
        new_notes = list(page_s.notes) + list(page_d.notes)
        moved = [n for n in page_d.notes if n.zid == Z1]
        if len(moved) != 1 or any(n.zid == Z1 for n in page_s.notes):
            return False, "moved note not exactly once in the destination / still in the source"
    moved = moved[0]
    others_old = sorted(note_key(n) for n in ob["old_notes"] if n.zid != Z1)
    others_new = sorted(note_key(n) for n in new_notes if n.zid != Z1)
    if others_old != others_new:
        return False, "the other notes changed: %r -> %r" % (others_old, others_new)
    # kind
    want_kind = (NoteType(ob["marker"]) if ob["marker"] else
                 (indexed.todo_payload.status if indexed.todo_payload else None))
    got_kind = moved.todo_payload.status if moved.todo_payload else None
    if want_kind != got_kind:
        return False, "kind %r, requested %r" % (got_kind, want_kind)
    # ZID, body words and bullets kept (metadata words may have been added after the ZID)
    old_words = indexed.body.split()
    new_words = moved.body.split()
    it_new = iter(new_words)
    if not all(w in it_new for w in old_words):
        return False, "body words lost: %r -> %r" % (indexed.body, moved.body)
    if len(indexed.body.split("\n")) != len(moved.body.split("\n")):
        return False, "number of body lines changed"
    # at least the same metadata
    for attr in ("areas", "contexts", "people", "projects"):
        if not set(getattr(indexed, attr)) <= set(getattr(moved, attr)):
            return False, "%s lost: %r -> %r" % (attr, getattr(indexed, attr), getattr(moved, attr))
    for kk, vv in indexed.properties.items():
        if moved.properties.get(kk) != vv:
            return False, "property %s::%s became %r" % (kk, vv, moved.properties.get(kk))
    return True, ""


