"""C17 CrossHair harness: `action open` offers and opens exactly the link targets on the line.

Real code under symbolic execution: zorg.app.runners._run_action.run_action_open (the registered
runner), _open_link, _open_file_link, _open_local_link, _open_global_link, _open_rid_link,
_open_zid_link, _is_local_link, _is_priority, _is_prefix_symbol; zorg.shared.dates.is_zid /
is_short_date_spec.
Stubs: in-memory FS behind c.prepend_zdir; print captured; note_utils.get_note_by_zid /
get_notes_by_id answer from a harness-chosen index; init_from_template, subprocess and the .zoq
refresh are recorded (external programs / C16 / C12 are outside).
"""
import itertools
import os
from pathlib import Path

from crosshair.tracers import NoTracing

from vlib import hx
from vlib.hx import V
from zorg.app.runners import _run_action as ra
from zorg.domain.models import Note
from zorg.shared import common as c

hx.stub_loggers()
ZDIR = "/zd"
FS = [None]
OUT = []
CALLS = []


def fake_prepend_zdir(zdir, path):
    p = str(path)
    if "." not in p:
        p = p + ".zo"
    if not p.startswith(ZDIR + "/"):
        p = ZDIR + "/" + p
    return hx.FakePath(p, FS[0])


hx.put(c, "prepend_zdir", fake_prepend_zdir)
hx.put(ra, "print", lambda *a, **k: OUT.append(" ".join(str(x) for x in a)))
hx.put(ra, "init_from_template", lambda *a, **k: CALLS.append(("init", str(a[2]))))


class _SP:
    @staticmethod
    def run(cmd, check=False):
        CALLS.append(("run", tuple(cmd)))

        class R:
            returncode = 0
        return R()


hx.put(ra, "sp", _SP)
hx.put(ra, "_refresh_zoq_file", lambda cfg, p: CALLS.append(("refresh", str(p))))

Z1, Z2, Z3 = "240101#01", "240202#02", "240303#0A3"
INDEX = [None]      # dict(zids={zid: page}, ids={id: [pages]}, rids={rid: [pages]})


class _NU:
    @staticmethod
    def get_note_by_zid(zdir, db_url, zid, verbose=0):
        page = INDEX[0]["zids"].get(zid)
        return None if page is None else Note(zid + " x", file_path=Path(page), line_no=3, zid=zid)

    @staticmethod
    def get_notes_by_id(zdir, db_url, id_, id_key="ID", verbose=0):
        pages = INDEX[0]["ids" if id_key == "ID" else "rids"].get(id_, [])
        return [Note("x", file_path=Path(p), line_no=3 + i, zid="24010%d#0%d" % (i + 1, i)) for i, p in enumerate(pages)]


hx.put(ra, "note_utils", _NU)


class Cfg:
    def __init__(self, zo_path, line_number, option_idx):
        self.zettel_dir = ZDIR
        self.zo_path = zo_path
        self.line_number = line_number
        self.option_idx = option_idx
        self.binary_exts = ["epub", "jpeg", "pdf", "png", "xmind"]
        self.template_pattern_map = {}
        self.database_url = "sqlite:///x"
        self.verbose = 0


SEARCH_END = "\\ze\\(\\s\\|[),.?!;:]\\|$\\)"
NOTHING = "We did not find anything zorg knows how to open on line"
WORDS = ["word", "[[p]]", "[[p#a]]", "[[sub/q]]", "[^l]", "[#g]", "[@r]", Z2, "[" + Z2 + "]", "[[doc.pdf]]", "P1",
         "240105", "[[xpdf]]", Z3, "[#none]", "[@dup]"]
W3 = ["", "[[p]]", Z2, "word"]
PUNCT = [("", ""), ("", ","), ("(", ")."), ("", ":")]
# kind prefixes, with / without modify date and primary ZID; a bullet line; a bare indented continuation line
PREFIXES = ["", "- ", "o P2 ", "- 240105 ", "- " + Z1 + " ", "o P1 240105 " + Z1 + " ", "  * ", "    "]
OPTIONS = [None, -1, 1, 2, 3]
INDEXES = [
    dict(zids={Z2: "a.zo", Z3: "sub/b.zo", Z1: "own.zo"}, ids={"g": ["n/g.zo"], "none": []}, rids={"r": ["r.zo"], "dup": ["d1.zo", "d2.zo"]}),
    dict(zids={Z1: "own.zo"}, ids={"g": ["g1.zo", "g2.zo"]}, rids={"r": []}),
    dict(zids={Z2: "a.zo"}, ids={"g": ["g1.zo", "g1.zo"]}, rids={"r": ["r.zo"], "dup": ["d1.zo", "d1.zo"]}),   # an ID twice on ONE page
]


# ------------------------------------------------------------------ oracle
def strip_p(w):
    return w.strip("(),.?!;:")


def is_zid_text(w):
    return len(w) in (9, 10) and w[:6].isdigit() and w[6] == "#"


def o_targets(line, zoq):
    words = [strip_p(w) for w in line.split(" ")]
    # primary ZID (the note's own): the first ZID word on the line, provided nothing but prefix words
    # (kind symbols, Pn priorities, YYMMDD dates) precedes it; a .zoq page has none; a ZID that is the
    # very first word of a line is a reference, not a note's own ZID
    primary = -1
    if not zoq:
        for k, w in enumerate(words):
            if w in ("-", "o", "x", "~", "<", ">") or (len(w) == 2 and w[0] == "P" and w[1].isdigit()) \
                    or (len(w) == 6 and w.isdigit()):
                continue
            if is_zid_text(w) and k != 0:
                primary = k
            break
    out = []
    for i, w in enumerate(words):
        if "[[" in w and "]]" in w:
            out.append(w)
        elif "[^" in w and "]" in w:
            out.append(w)
        elif ("[#" in w or "[@" in w or "[!" in w) and "]" in w:
            out.append(w)
        elif w.startswith("z::"):
            out.append(w)
        elif is_zid_text(w.strip("[]")) and i != primary:
            out.append(w.strip("[]"))
    return out


def o_open(t, idx, fs):
    """(stdout lines, return code, recorded calls) of opening one target"""
    if t.startswith("[[") and t.endswith("]]"):
        inner = t[2:-2]
        base, anchor = (inner.split("#", 1) + [None])[:2] if "#" in inner else (inner, None)
        path = ZDIR + "/" + (base if "." in base else base + ".zo")
        calls = [] if path in fs.files else [("init", path)]
        ext = path.rsplit(".", 1)[-1]
        if ext in ("epub", "jpeg", "pdf", "png", "xmind"):
            return [], 0, calls + [("run", ("open", path))]
        return ["EDIT " + path] + (["SEARCH LID::" + anchor] if anchor is not None else []), 0, calls
    if t.startswith("[^"):
        return ["SEARCH LID::" + t[2:-1] + SEARCH_END], 0, []
    if t.startswith("[#"):
        g = t[2:-1]
        pages = sorted(set(idx["ids"].get(g, [])))
        if not pages:
            return ["ECHO No notes found with the ID::%s property" % g], 1, []
        if len(pages) > 1:
            return ["ECHO Multiple pages found containing notes with the ID::%s property: %s" % (g, " ".join(pages))], 1, []
        return ["EDIT %s/%s" % (ZDIR, pages[0]), "SEARCH ID::" + g + SEARCH_END], 0, []
    if t.startswith("[@"):
        r = t[2:-1]
        pages = idx["rids"].get(r, [])
        if not pages:
            return ["ECHO No notes found with the RID::%s property" % r], 1, []
        if len(pages) > 1:
            return ["ECHO Multiple notes found the with the RID::%s property: %s" % (r, " ".join(sorted(set(pages))))], 1, []
        return ["EDIT %s/%s" % (ZDIR, pages[0]), "SEARCH RID::" + r + SEARCH_END], 0, []
    # a ZID
    page = idx["zids"].get(t)
    if page is None:
        return [], 1, []
    return ["EDIT %s/%s" % (ZDIR, page), "SEARCH \\s\\zs" + t], 0, []


def o_action(line, zoq, option, idx, fs, line_number):
    ts = o_targets(line, zoq)
    if not ts:
        return ["ECHO %s #%d" % (NOTHING, line_number)], 0, []
    if len(ts) == 1:
        return o_open(ts[0], idx, fs)
    if option is None:
        return ["PROMPT " + " ".join(ts)], 0, []
    if option == -1:
        return o_open(ts[-1], idx, fs)
    if 1 <= option <= len(ts):
        return o_open(ts[option - 1], idx, fs)
    return [], 1, []


# ------------------------------------------------------------------ driver of the real runner
def run_real(line, zoq, option, idx_i, line_number=3):
    name = "cur.zoq" if zoq else "cur.zo"
    fs = hx.FakeFS({ZDIR + "/" + name: "# t\n\n" + line + "\n- 240909#09 other line\n",
                    ZDIR + "/p.zo": "# p\n", ZDIR + "/doc.pdf": "%PDF"})
    FS[0] = fs
    INDEX[0] = INDEXES[idx_i]
    del OUT[:]
    del CALLS[:]
    rc = ra.run_action_open(Cfg(Path(name), line_number, option))
    return list(OUT), rc, list(CALLS), fs


PIN_PREFIX = int(os.environ.get("XH_PREFIX", "-1"))
PIN_W1 = os.environ.get("XH_W1", "")
PIN_ZOQ = os.environ.get("XH_ZOQ", "")
THOROUGH = os.environ.get("XH_MENUS", "quick") == "thorough"
# quick menus are sub-menus of the thorough ones (see c17.py for the sizes)
W2_MENU = list(range(-1, len(WORDS))) if THOROUGH else [-1, 1, 2, 5, 7, 8]
P1_MENU = [0, 2] if not THOROUGH else [0, 1, 2]
W3_MENU = [0, 2] if not THOROUGH else [0, 1, 2]
OPT_MENU = [0, 1, 3] if not THOROUGH else [0, 1, 2, 3, 4]


IDWORDS = (5, 6, 14, 15)                  # [#g] [@r] [#none] [@dup]
DBWORDS = (5, 6, 7, 8, 13, 14, 15)      # words whose opening depends on the index content


def _idx_ok(w1, w2, idx_i):
    # the second index content only matters when some word is resolved through the index
    if THOROUGH or idx_i == 0:
        return True
    if idx_i == 2:          # "an ID twice on one page" only differs for [#..] / [@..] words
        return w1 in IDWORDS or w2 in IDWORDS
    return w1 in DBWORDS or w2 in DBWORDS


def _pins(pre_i, w1, zoq):
    if PIN_PREFIX >= 0 and pre_i != PIN_PREFIX:
        return False
    if PIN_W1:
        lo, hi = PIN_W1.split("-")
        if not (int(lo) <= w1 < int(hi)):
            return False
    if PIN_ZOQ and zoq != (PIN_ZOQ == "1"):
        return False
    return True


def build_line(pre_i, w1, p1, w2, w3):
    a, b = PUNCT[p1]
    words = [a + WORDS[w1] + b]
    if w2 >= 0:
        words.append(WORDS[w2])
    if W3[w3]:
        words.append(W3[w3] + ".")
    return PREFIXES[pre_i] + " ".join(words)


def _action(pre_i, w1, p1, w2, w3, zoq, opt, idx_i):
    """the obligation on one concrete choice: '' or what is wrong"""
    line = build_line(pre_i, w1, p1, w2, w3)
    out, rc, calls, fs = run_real(line, zoq, OPTIONS[opt], idx_i)
    w_out, w_rc, w_calls = o_action(line, zoq, OPTIONS[opt], INDEXES[idx_i], fs, 3)
    if not all(ln.split(" ")[0] in ("EDIT", "SEARCH", "PROMPT", "ECHO") for ln in out):
        return "not a protocol message"
    if (out, rc, calls) != (w_out, w_rc, w_calls):
        return "answer differs from the oracle"
    # relational clause: choosing option k opens the same thing as a line holding only the k-th target
    ts = o_targets(line, zoq)
    k = OPTIONS[opt]
    if len(ts) >= 2 and k is not None and (k == -1 or 1 <= k <= len(ts)):
        t = ts[-1] if k == -1 else ts[k - 1]
        single = "see " + t + " there"
        out1, rc1, calls1, _ = run_real(single, zoq, None, idx_i)
        if (out1, rc1, calls1) != (out, rc, calls):
            return "option k differs from a line with only the k-th target"
    return ""


def action(pre_i: int, w1: int, p1: int, w2: int, w3: int, zoq: bool, opt: int, idx_i: int) -> bool:
    """
    pre: 0 <= pre_i < len(PREFIXES) and 0 <= w1 < len(WORDS) and p1 in P1_MENU and w2 in W2_MENU
    pre: w3 in W3_MENU and opt in OPT_MENU and 0 <= idx_i < len(INDEXES)
    pre: _pins(pre_i, w1, zoq) and _idx_ok(w1, w2, idx_i)
    pre: THOROUGH or idx_i == 0 or (p1 == 0 and w3 == 0)
    post: _
    """
    # TRACED family: the real runner executes under CrossHair's tracing (0.25 s per path: run on the pinned prefixes only)
    return V(_action(pre_i, w1, p1, w2, w3, zoq, opt, idx_i) == "")


# ------------------------------------------------------------------ the whole menu product, one table index
# every (prefix, first word, punctuation, second word, third word, page kind, option, index content) of the tier's menus
ADM = list(itertools.product(range(len(PREFIXES)), range(len(WORDS)), P1_MENU, W2_MENU, W3_MENU, (False, True), OPT_MENU,
                             range(len(INDEXES))))
PIN_N = os.environ.get("XH_N", "")


def _n_ok(n):
    if not PIN_N:
        return True
    lo, hi = PIN_N.split("-")
    return int(lo) <= n < int(hi)


def conc_bits(x, nbits):
    """realise a symbolic int WHILE TRACING by binary search (nbits decisions)"""
    v = 0
    for b in reversed(range(nbits)):
        if x >= v + (1 << b):
            v += 1 << b
    return v


def action_n(n: int) -> bool:
    """
    pre: 0 <= n < len(ADM) and _n_ok(n)
    post: _
    """
    # the solver chooses the table index; the real runner then runs for ADM[n] with tracing off (12 ms instead of 250 ms
    # per choice), so the WHOLE menu product is covered
    n = conc_bits(n, len(ADM).bit_length())
    with NoTracing():
        return V(_action(*ADM[n]) == "")
