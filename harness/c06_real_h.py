"""C06 CrossHair harness, family `history_real`: short histories over the REAL zorg (vlib/crashreal.py, nothing stubbed).

pre-state pair (any two per-page states satisfying the invariants) -> `db reindex` in a solver-chosen mode (plain / page a
/ page b / page a spelled s/../a.zo) -> a solver-chosen edit of page a (none / delete / any of its texts) -> plain `db reindex` -> the index must
answer like a fresh `db create` on a copy of the final files (same notes with the same ZIDs, bodies, tags per page; files
untouched by that fresh create; hash map describes the files; no ZID twice).  This puts SQLRepo.remove_file_by_name,
PageConverter, the tag / property rows and SQLite - which the model family of c06_h.py does not claim - inside the check.
"""
import os
import pathlib
import shutil
import tempfile

from crosshair.tracers import NoTracing

from harness.c13_common import FILE_STATES, HASH_STATES, INDEX_STATES, NAMES, TEXTS, VALID, strip_zids
from vlib import crashreal
from vlib.hx import V

TABLES = (FILE_STATES, INDEX_STATES, HASH_STATES)
EDITS = [-1] + list(range(len(FILE_STATES)))          # -1: no edit; else page a's file becomes FILE_STATES[e] (0: deleted)
# run modes: 0 plain; 1 / 2 the explicit path of page a / b; 3 page a under a NON-CANONICAL spelling (s/../a.zo): an explicit
# path that the plain run's scan of the directory never yields under that name
MODE_RELS = [[], [NAMES[0]], [NAMES[1]], ["s/../" + NAMES[0]]]
ADM = [(a, b, mode, e) for a in range(len(VALID)) for b in range(len(VALID)) for mode in range(4) for e in EDITS
       if not (mode in (1, 3) and VALID[a][0] == 0) and not (mode == 2 and VALID[b][0] == 0)]
PIN_N = os.environ.get("XH_N", "")
STRIDE = int(os.environ.get("XH_STRIDE", "1"))
OFFSET = int(os.environ.get("XH_OFFSET", "0"))


def _n_ok(n):
    if n % STRIDE != OFFSET % STRIDE:
        return False
    if not PIN_N:
        return True
    lo, hi = PIN_N.split("-")
    return int(lo) <= n < int(hi)


def conc_bits(x, nbits):
    v = 0
    for b in reversed(range(nbits)):
        if x >= v + (1 << b):
            v += 1 << b
    return v


def history(n):
    """'' or what is wrong at the end of history ADM[n] on a fresh real directory"""
    a, b, mode, e = ADM[n]
    base = pathlib.Path(tempfile.mkdtemp(prefix="c06h"))
    try:
        z = base / "z"
        z.mkdir()
        crashreal.put_state(z, NAMES, TEXTS, (VALID[a], VALID[b]), *TABLES)
        rels = MODE_RELS[mode]
        (z / "s").mkdir(exist_ok=True)
        _c, _log, err = crashreal.run(z, "reindex", rels)
        if err is not None:
            return "`db reindex%s` fails: %s" % ("".join(" " + r for r in rels), err)
        if e >= 0:
            p = z / NAMES[0]
            if FILE_STATES[e]:
                new = TEXTS[0][FILE_STATES[e]]
                # (a page that got its ZIDs keeps them: the user edits text, not ZIDs)
                if not (p.exists() and strip_zids(p.read_text()) == strip_zids(new)):
                    p.write_text(new)
            elif p.exists():
                p.unlink()
        _c, _log, err = crashreal.run(z, "reindex", [])
        if err is not None:
            return "the final plain `db reindex` fails: " + err
        return crashreal.judge(z, {}, "reindex", [], strip_zids)
    finally:
        shutil.rmtree(base, ignore_errors=True)
        crashreal._cleanup()


def history_real(n: int) -> bool:
    """
    pre: 0 <= n < len(ADM) and _n_ok(n)
    post: _
    """
    n = conc_bits(n, len(ADM).bit_length())      # (width from the table: a fixed width silently folds every larger index onto the last one it can represent)
    with NoTracing():
        return V(history(n) == "")
