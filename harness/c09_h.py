"""C09 CrossHair harness: query output renders the selected notes faithfully.

Real code under symbolic execution: zorg.service.swog._executor.execute_with_session (glue),
_get_notes_by_query, _group_notes_by, _order_notes_by, _order_by_keyfunc, _select, _get_selector,
_select_*, _get_header; zorg.domain.types GroupByType.keyfunc / OrderByType.keyfunc /
_to_comparable_*; Note.to_string; SelectAggregation.aggregate.
Stubs: session.repo.get_notes_by_query returns the harness' notes; build_zorg_query returns the
pre-built Query object of the spec (query *compilation* is C04's subject); expand_saved_queries is
the identity (C15's subject); time.time() -> 0.0; loggers silent.
One generic condition `cond`; the spec (which query, which note fields are symbolic and in what
range) is selected by the environment variable XH_SPEC, see SPECS.
"""
import datetime as dt
import os
from pathlib import Path

from vlib import hx
from vlib.hx import V
from zorg.domain.models import H1, H2, Block, Note, Query, TodoPayload
from zorg.domain.types import (GroupByType, NoteType, OrderByType, SelectAggregation,
                               SelectPropertyValues, SelectStaticType)
from zorg.service.swog import _executor as ex

hx.stub_loggers()


class _Time:
    @staticmethod
    def time():
        return 0.0


hx.put(ex, "time", _Time)
hx.put(ex, "expand_saved_queries", lambda zdir, q: q)
_CUR_QUERY = [None]
hx.put(ex, "build_zorg_query", lambda q: _CUR_QUERY[0])

G, O, S = GroupByType, OrderByType, SelectStaticType
KINDS = [None, NoteType.OPEN_TODO, NoteType.CLOSED_TODO, NoteType.CANCELED_TODO,
         NoteType.BLOCKED_TODO, NoteType.PARENT_TODO]
PATHS = ["a.zo", "b/c.zo"]
BASE = dt.date(2024, 2, 28)   # window crosses a month boundary (leap year)

# sections: 0 = page head (h0, no title), 1 = H1 "A", 2 = H2 "B" in H1 "A", 3 = H2 "C" under the head
_h0 = H1("", [])
_hA = H1("A", [])
_hB = H2("B", [], h1=_hA)
_hC = H2("C", [], h1=_h0)
SECTIONS = [_h0, _hA, _hB, _hC]
SECTION_LABEL = ["", "A", "A | B", "C"]


class _Repo:
    def __init__(self, notes):
        self.notes = notes

    def get_notes_by_query(self, where):
        return list(self.notes)


class _Session:
    def __init__(self, notes):
        self.zdir = Path("/z")
        self.repo = _Repo(notes)


def mk(f):
    """note from a field dict (defaults below)"""
    kind = KINDS[f["kind"]]
    payload = None if kind is None else TodoPayload(priority="P%d" % f["pri"], status=kind)
    blk = Block(section=SECTIONS[f["sec"]])
    n = Note(f["body"], file_path=Path(PATHS[f["path"]]), line_no=f["line"],
             areas=[t for t in (f["area"], f["area2"]) if t], contexts=[f["ctx"]] if f["ctx"] else [],
             people=[f["person"]] if f["person"] else [], projects=[f["proj"]] if f["proj"] else [],
             links=[t for t in (f["link"], f["link2"]) if t],
             properties=({f["pkey"]: f["pval"]} if f["pkey"] else {}),
             create_date=BASE + dt.timedelta(days=f["cd"]), modify_date=BASE + dt.timedelta(days=f["md"]),
             todo_payload=payload, zid="240228#0%d" % f["i"], block=blk)
    return n


DEFAULT = dict(kind=1, pri=3, body="b", path=0, line=5, area="", area2="", ctx="", person="", proj="",
               link="", link2="", pkey="", pval="", cd=0, md=0, sec=0)

# ------------------------------------------------------------------ oracle (independent of _executor)
TYPE_LABEL = {None: "4 | NOTES", NoteType.OPEN_TODO: "1 | OPEN TODOS", NoteType.CLOSED_TODO: "2 | DONE TODOS",
              NoteType.CANCELED_TODO: "3 | CANCELED TODOS", NoteType.BLOCKED_TODO: "1 | OPEN TODOS",
              NoteType.PARENT_TODO: "1 | OPEN TODOS"}
HEADERS = {1: "#" * 32, 2: "=" * 24, 3: "+" * 16, 4: "-" * 8}


def o_kind(n):
    return n.todo_payload.status if n.todo_payload else None


def o_text(n):
    k = o_kind(n)
    ch = "-" if k is None else k.value
    pr = "" if k in (None, NoteType.CLOSED_TODO, NoteType.CANCELED_TODO) else " " + n.todo_payload.priority
    return ch + pr + " " + n.body.strip() + "\n"


def o_ymd(d):
    return (d.year, d.month, d.day)


def o_value(dim, n, sec_label):
    if dim is G.AREA:
        return " | ".join("#" + t for t in sorted(n.areas))
    if dim is G.CONTEXT:
        return " | ".join("@" + t for t in sorted(n.contexts))
    if dim is G.PERSON:
        return " | ".join("%" + t for t in sorted(n.people))
    if dim is G.PROJECT:
        return " | ".join("+" + t for t in sorted(n.projects))
    if dim is G.FILE:
        p = str(n.file_path)
        return "[[" + (p[:-3] if p.endswith(".zo") else p) + "]]"
    if dim is G.NOTE_TYPE:
        return TYPE_LABEL[o_kind(n)]
    if dim is G.PRIORITY:
        return n.todo_payload.priority if n.todo_payload else ""
    if dim is G.SECTION:
        return sec_label[id(n)]
    raise AssertionError(dim)


def o_key(order_by, n):
    out = []
    for o in order_by:
        if o is O.ALPHA:
            out.append(o_text(n))
        elif o is O.CREATE_DATE:
            out.append(o_ymd(n.create_date))
        elif o is O.MODIFY_DATE:
            out.append(o_ymd(n.modify_date))
        elif o is O.NOTE_TYPE:
            out.append(TYPE_LABEL[o_kind(n)])
        elif o is O.PRIORITY:
            out.append(n.todo_payload.priority if n.todo_payload else "")
        elif o is O.NONE:
            out.append((str(n.file_path), n.line_no))     # page path, then INTEGER line number
    return tuple(out)


def o_distinct(vals, alpha):
    out = []
    for v in vals:
        if v not in out:
            out.append(v)
    return sorted(out) if alpha else out


def o_selection(sel, notes, alpha):
    if sel is S.NOTE:
        return [o_text(n).rstrip() for n in notes]
    if sel is S.FILE:
        return sorted(set(str(n.file_path) for n in notes))
    if sel is S.AREA:
        return o_distinct([t for n in notes for t in n.areas], alpha)
    if sel is S.CONTEXT:
        return o_distinct([t for n in notes for t in n.contexts], alpha)
    if sel is S.PERSON:
        return o_distinct([t for n in notes for t in n.people], alpha)
    if sel is S.PROJECT:
        return o_distinct([t for n in notes for t in n.projects], alpha)
    if sel is S.LINKS:
        return o_distinct([t for n in notes for t in n.links], alpha)
    if sel is S.PROPERTY:
        return o_distinct([k for n in notes for k in n.properties], alpha)
    if isinstance(sel, SelectPropertyValues):
        return o_distinct([n.properties[sel.key] for n in notes if sel.key in n.properties], alpha)
    raise AssertionError(sel)


def o_sorted(notes, order_by):
    # insertion sort on the tuple key (stable), so no reliance on list.sort
    out = []
    for n in notes:
        k = o_key(order_by, n)
        i = len(out)
        while i > 0 and o_key(order_by, out[i - 1]) > k:
            i -= 1
        out.insert(i, n)
    return out


def o_render(sel, notes, group_by, order_by, sec_label, level=1, nlevels=None):
    nlevels = len(group_by) + level - 1 if nlevels is None else nlevels
    alpha = set(order_by) == {O.ALPHA}
    if not group_by:
        leaf = o_sorted(notes, order_by)
        if isinstance(sel, SelectAggregation):
            body = str(len(o_selection(sel.select_type, leaf, alpha)))
        else:
            body = "\n".join(o_selection(sel, leaf, alpha))
        return body + "\n\n"
    dim, rest = group_by[0], group_by[1:]
    vals = sorted(set(o_value(dim, n, sec_label) for n in notes))
    out = ""
    for v in vals:
        if v != "":
            nl = "\n" if (nlevels > 1 and level == 1) else ""
            out += nl + HEADERS[level] + " " + v + "\n"
        out += o_render(sel, [n for n in notes if o_value(dim, n, sec_label) == v], rest, order_by,
                        sec_label, level + 1, nlevels)
    return out


# ------------------------------------------------------------------ specs
# Every hole is an index into a finite domain (dom[var] = list of values): the values end up in
# formatted strings, dict keys and sort keys, where CrossHair realises them anyway (DESIGN.md §2.1).
# The solver still decides every path; the domains are the bound.
def _spec(name, select=S.NOTE, group=(), order=(O.NONE,), sym=None, dom=None, n=2, base=None):
    return dict(name=name, select=select, group=tuple(group), order=tuple(order), sym=sym or {},
                dom=dom or {}, n=n, base=base or {})


def R(lo, hi):
    return list(range(lo, hi + 1))


TAGM = ["", "a", "b"]          # menu for a tag-valued hole ("" = absent)
K6 = R(0, 5)
SPECS = [
    # ---- ORDER BY (ungrouped)
    _spec("ord_none_lines", order=(O.NONE,), sym={"0.line": "i0", "1.line": "i1"},
          dom={"i0": [1, 2, 9, 10, 11, 19, 20, 99, 100, 101, 120], "i1": [1, 2, 9, 10, 11, 19, 20, 99, 100, 101, 120]}),
    _spec("ord_none_paths", order=(O.NONE,), sym={"0.line": "i0", "1.line": "i1", "0.path": "i2", "1.path": "i3"},
          dom={"i0": R(8, 11), "i1": R(8, 11), "i2": R(0, 1), "i3": R(0, 1)}),
    _spec("ord_priority", order=(O.PRIORITY,), sym={"0.pri": "i0", "1.pri": "i1"}, dom={"i0": R(0, 9), "i1": R(0, 9)}),
    _spec("ord_priority_kinds", order=(O.PRIORITY,), sym={"0.kind": "i0", "1.kind": "i1", "1.pri": "i2"},
          dom={"i0": K6, "i1": K6, "i2": [0, 3, 9]}),
    _spec("ord_type", order=(O.NOTE_TYPE,), sym={"0.kind": "i0", "1.kind": "i1", "2.kind": "i2"},
          dom={"i0": K6, "i1": K6, "i2": [0, 1, 2, 3]}, n=3),
    _spec("ord_create", order=(O.CREATE_DATE,), sym={"0.cd": "i0", "1.cd": "i1", "2.cd": "i2"},
          dom={"i0": R(0, 3), "i1": R(0, 3), "i2": R(0, 2)}, n=3),
    _spec("ord_modify", order=(O.MODIFY_DATE,), sym={"0.md": "i0", "1.md": "i1"}, dom={"i0": R(0, 3), "i1": R(0, 3)}),
    _spec("ord_alpha", order=(O.ALPHA,), sym={"0.body": "i0", "1.body": "i1", "0.kind": "i2", "1.kind": "i3"},
          dom={"i0": ["a", "b", "B", "ab"], "i1": ["a", "b", "B", "ab"], "i2": [0, 1, 2], "i3": [0, 1, 2]}),
    _spec("ord_type_priority", order=(O.NOTE_TYPE, O.PRIORITY),
          sym={"0.kind": "i0", "1.kind": "i1", "0.pri": "i2", "1.pri": "i3"},
          dom={"i0": K6, "i1": [0, 1, 2, 4], "i2": [1, 3], "i3": [1, 3]}),
    _spec("ord_modify_create", order=(O.MODIFY_DATE, O.CREATE_DATE),
          sym={"0.md": "i0", "1.md": "i1", "0.cd": "i2", "1.cd": "i3"},
          dom={"i0": R(0, 2), "i1": R(0, 2), "i2": R(0, 1), "i3": R(0, 1)}),
    _spec("ord_default", order=(O.NOTE_TYPE, O.PRIORITY, O.MODIFY_DATE, O.CREATE_DATE),
          sym={"0.kind": "i0", "1.kind": "i1", "0.pri": "i2", "1.pri": "i3", "0.md": "i4", "1.md": "i5"},
          dom={"i0": [0, 1, 2], "i1": [0, 1, 4], "i2": [2, 3], "i3": [2, 3], "i4": R(0, 1), "i5": R(0, 1)}),
    _spec("ord_priority_none", order=(O.PRIORITY, O.NONE),
          sym={"0.pri": "i0", "1.pri": "i1", "0.line": "i2", "1.line": "i3"},
          dom={"i0": [1, 2], "i1": [1, 2], "i2": R(1, 4), "i3": R(1, 4)}),
    # ---- GROUP BY one dimension (three notes so that two can share a group)
    _spec("grp_area", group=(G.AREA,), sym={"0.area": "i0", "1.area": "i1", "2.area": "i2", "0.area2": "i3"},
          dom={"i0": TAGM, "i1": TAGM, "i2": TAGM, "i3": ["", "c"]}, n=3),
    _spec("grp_context", group=(G.CONTEXT,), sym={"0.ctx": "i0", "1.ctx": "i1", "2.ctx": "i2"},
          dom={"i0": TAGM, "i1": TAGM, "i2": TAGM}, n=3),
    _spec("grp_person", group=(G.PERSON,), sym={"0.person": "i0", "1.person": "i1"}, dom={"i0": TAGM, "i1": TAGM}),
    _spec("grp_project", group=(G.PROJECT,), sym={"0.proj": "i0", "1.proj": "i1"}, dom={"i0": TAGM, "i1": TAGM}),
    _spec("grp_file", group=(G.FILE,), sym={"0.path": "i0", "1.path": "i1", "2.path": "i2"},
          dom={"i0": R(0, 1), "i1": R(0, 1), "i2": R(0, 1)}, n=3),
    _spec("grp_type", group=(G.NOTE_TYPE,), sym={"0.kind": "i0", "1.kind": "i1", "2.kind": "i2"},
          dom={"i0": K6, "i1": K6, "i2": [0, 1, 2, 3]}, n=3),
    _spec("grp_priority", group=(G.PRIORITY,), sym={"0.pri": "i0", "1.pri": "i1", "0.kind": "i2", "1.kind": "i3"},
          dom={"i0": [0, 1, 9], "i1": [0, 1, 9], "i2": R(0, 1), "i3": R(0, 1)}),
    _spec("grp_section", group=(G.SECTION,), sym={"0.sec": "i0", "1.sec": "i1", "2.sec": "i2"},
          dom={"i0": R(0, 3), "i1": R(0, 3), "i2": R(0, 3)}, n=3),
    # ---- GROUP BY several dimensions
    _spec("grp_file_section", group=(G.FILE, G.SECTION), sym={"0.path": "i0", "1.path": "i1", "0.sec": "i2", "1.sec": "i3"},
          dom={"i0": R(0, 1), "i1": R(0, 1), "i2": R(0, 3), "i3": R(0, 3)}),
    _spec("grp_type_priority", group=(G.NOTE_TYPE, G.PRIORITY), order=(O.CREATE_DATE,),
          sym={"0.kind": "i0", "1.kind": "i1", "0.pri": "i2", "1.pri": "i3"},
          dom={"i0": [0, 1, 2, 4], "i1": [0, 1, 2, 4], "i2": [1, 2], "i3": [1, 2]}),
    _spec("grp_area_context", group=(G.AREA, G.CONTEXT), sym={"0.area": "i0", "1.area": "i1", "0.ctx": "i2", "1.ctx": "i3"},
          dom={"i0": TAGM, "i1": TAGM, "i2": TAGM, "i3": TAGM}),
    _spec("grp_3dims", group=(G.FILE, G.NOTE_TYPE, G.PRIORITY),
          sym={"0.path": "i0", "1.path": "i1", "0.kind": "i2", "1.kind": "i3", "0.pri": "i4", "1.pri": "i5"},
          dom={"i0": R(0, 1), "i1": R(0, 1), "i2": [0, 1, 2], "i3": [0, 1, 2], "i4": [1, 2], "i5": [1, 2]}),
    _spec("grp_4dims", group=(G.FILE, G.SECTION, G.NOTE_TYPE, G.PROJECT),
          sym={"0.path": "i0", "1.path": "i1", "0.sec": "i2", "1.sec": "i3", "0.kind": "i4", "1.kind": "i5",
               "0.proj": "i6", "1.proj": "i7"},
          dom={"i0": R(0, 1), "i1": R(0, 1), "i2": R(0, 1), "i3": R(0, 1), "i4": R(0, 1), "i5": R(0, 1),
               "i6": ["", "a"], "i7": ["", "a"]}),
    # ---- value selections and counts
    _spec("sel_area", select=S.AREA, order=(O.NONE,), sym={"0.area": "i0", "1.area": "i1", "0.area2": "i2", "1.line": "i3"},
          dom={"i0": TAGM, "i1": TAGM, "i2": ["", "a", "c"], "i3": [1, 9]}, base={"0.line": 5}),
    _spec("sel_area_alpha", select=S.AREA, order=(O.ALPHA,), sym={"0.area": "i0", "1.area": "i1", "0.area2": "i2"},
          dom={"i0": TAGM, "i1": TAGM, "i2": ["", "a", "c"]}, base={"0.body": "z", "1.body": "y"}),
    _spec("sel_context", select=S.CONTEXT, order=(O.ALPHA,), sym={"0.ctx": "i0", "1.ctx": "i1"},
          dom={"i0": TAGM, "i1": TAGM}, base={"0.body": "z", "1.body": "y"}),
    _spec("sel_person_count", select=SelectAggregation("count", S.PERSON), sym={"0.person": "i0", "1.person": "i1"},
          dom={"i0": TAGM, "i1": TAGM}),
    _spec("sel_project", select=S.PROJECT, sym={"0.proj": "i0", "1.proj": "i1"}, dom={"i0": TAGM, "i1": TAGM}),
    _spec("sel_links", select=S.LINKS, order=(O.ALPHA,), sym={"0.link": "i0", "1.link": "i1", "0.link2": "i2"},
          dom={"i0": ["", "p", "q#x"], "i1": ["", "p", "q#x"], "i2": ["", "global:g"]}),
    _spec("sel_links_noalpha", select=S.LINKS, order=(O.NONE,), sym={"0.link": "i0", "1.link": "i1", "0.link2": "i2"},
          dom={"i0": ["", "p", "q#x"], "i1": ["", "p", "q#x"], "i2": ["", "global:g"]}),
    _spec("sel_prop_keys", select=S.PROPERTY, sym={"0.pkey": "i0", "1.pkey": "i1"},
          dom={"i0": ["", "k", "j"], "i1": ["", "k", "j"]}, base={"0.pval": "1", "1.pval": "2"}),
    _spec("sel_prop_values", select=SelectPropertyValues("k"), order=(O.ALPHA,),
          sym={"0.pkey": "i0", "1.pkey": "i1", "0.pval": "i2", "1.pval": "i3"},
          dom={"i0": ["", "k", "j"], "i1": ["", "k", "j"], "i2": ["1", "2"], "i3": ["1", "2"]}),
    # three notes, selection order = file order: repeated values that are NOT adjacent (1, 2, 1) must still be listed once
    _spec("sel_prop_values_none3", select=SelectPropertyValues("k"), order=(O.NONE,),
          sym={"0.pval": "i0", "1.pval": "i1", "2.pval": "i2", "1.pkey": "i3"},
          dom={"i0": ["1", "2"], "i1": ["1", "2"], "i2": ["1", "2"], "i3": ["k", "j"]}, n=3,
          base={"0.pkey": "k", "2.pkey": "k"}),
    _spec("sel_count_prop_values_none3", select=SelectAggregation("count", SelectPropertyValues("k")), order=(O.NONE,),
          sym={"0.pval": "i0", "1.pval": "i1", "2.pval": "i2"},
          dom={"i0": ["1", "2"], "i1": ["1", "2"], "i2": ["1", "2"]}, n=3,
          base={"0.pkey": "k", "1.pkey": "k", "2.pkey": "k"}),
    _spec("sel_area_none3", select=S.AREA, order=(O.NONE,),
          sym={"0.area": "i0", "1.area": "i1", "2.area": "i2"},
          dom={"i0": ["a", "b"], "i1": ["a", "b"], "i2": ["a", "b"]}, n=3),
    _spec("sel_area_alpha_grouped", select=S.AREA, order=(O.ALPHA,), group=(G.FILE,),
          sym={"0.area": "i0", "1.area": "i1", "2.area": "i2", "2.path": "i3"},
          dom={"i0": ["z", "a"], "i1": ["m", "a"], "i2": ["a", "z"], "i3": R(0, 1)}, n=3, base={"0.body": "c", "1.body": "b", "2.body": "a"}),
    _spec("sel_links_alpha_grouped2", select=S.LINKS, order=(O.ALPHA,), group=(G.NOTE_TYPE, G.FILE),
          sym={"0.link": "i0", "1.link": "i1", "1.kind": "i2"}, dom={"i0": ["zeta", "alpha"], "i1": ["mid", "alpha"], "i2": [0, 1]},
          base={"0.body": "z", "1.body": "a"}),
    _spec("sel_propvalues_alpha_grouped", select=SelectPropertyValues("k"), order=(O.ALPHA,), group=(G.PRIORITY,),
          sym={"0.pval": "i0", "1.pval": "i1", "1.pri": "i2"}, dom={"i0": ["9", "1"], "i1": ["5", "1"], "i2": [3, 4]},
          base={"0.pkey": "k", "1.pkey": "k", "0.body": "z", "1.body": "a"}),
    _spec("sel_file", select=S.FILE, sym={"0.path": "i0", "1.path": "i1"}, dom={"i0": R(0, 1), "i1": R(0, 1)}),
    _spec("sel_count_note_grouped", select=SelectAggregation("count", S.NOTE), group=(G.NOTE_TYPE,),
          sym={"0.kind": "i0", "1.kind": "i1", "2.kind": "i2"}, dom={"i0": K6, "i1": K6, "i2": [0, 1, 2, 3]}, n=3),
    _spec("sel_count_area_grouped", select=SelectAggregation("count", S.AREA), group=(G.FILE,),
          sym={"0.path": "i0", "1.path": "i1", "0.area": "i2", "1.area": "i3"},
          dom={"i0": R(0, 1), "i1": R(0, 1), "i2": TAGM, "i3": TAGM}),
    _spec("sel_note_text", select=S.NOTE, sym={"0.kind": "i0", "0.pri": "i1", "0.body": "i2"},
          dom={"i0": K6, "i1": [0, 3, 9], "i2": ["b", " b ", "b\n  * c", "x P1 o"]}, n=1),
]
SPEC_BY_NAME = {s["name"]: s for s in SPECS}
KNOWN = set(x for x in os.environ.get("XH_KNOWN", "").split(",") if x)
SPEC = SPEC_BY_NAME.get(os.environ.get("XH_SPEC", "ord_none_lines"))
VARS = ["i0", "i1", "i2", "i3", "i4", "i5", "i6", "i7"]


def _pre(idx):
    for k, v in zip(VARS, idx):
        n = len(SPEC["dom"].get(k, [0]))
        if not (0 <= v < n):
            return False
    return True


# argument space of the engine cross-validation (vlib/concrete_worker.py)
CC = {nm: [[0, len(SPEC["dom"].get(k, [0]))] for k in VARS] for nm in ("cond", "kf_none_text_order")}


def build_notes(spec, idx):
    val = {k: spec["dom"][k][i] for k, i in zip(VARS, idx) if k in spec["dom"]}
    notes = []
    for j in range(spec["n"]):
        f = dict(DEFAULT)
        f["i"] = j
        f["line"] = 5 + j
        f["body"] = "b%d" % j
        for key, v in spec["base"].items():
            jj, fld = key.split(".")
            if int(jj) == j:
                f[fld] = v
        for key, var in spec["sym"].items():
            jj, fld = key.split(".")
            if int(jj) == j:
                f[fld] = val[var]
        notes.append(mk(f))
    return notes


def digits(n):
    out = []
    while True:
        out.insert(0, n % 10)
        n //= 10
        if n == 0:
            return tuple(out)


def kf_c09_1(notes):
    """predicate of known finding KF-C09-1: two notes of one page whose line numbers compare
    differently as decimal text and as integers"""
    for a in notes:
        for b in notes:
            if str(a.file_path) == str(b.file_path) and a.line_no < b.line_no \
                    and not (digits(a.line_no) < digits(b.line_no)):
                return True
    return False


def run_spec(spec, idx):
    notes = build_notes(spec, idx)
    sec_label = {id(n): SECTION_LABEL[SECTIONS.index(n.block.section)] for n in notes}
    q = Query(select=spec["select"], where=None, order_by=spec["order"], group_by=spec["group"])
    _CUR_QUERY[0] = q
    got = ex.execute_with_session(_Session(notes), "W x")
    want = o_render(spec["select"], notes, spec["group"], spec["order"], sec_label).strip()
    return got, want, notes


def cond(i0: int, i1: int, i2: int, i3: int, i4: int, i5: int, i6: int, i7: int) -> bool:
    """
    pre: _pre((i0, i1, i2, i3, i4, i5, i6, i7))
    post: _
    """
    idx = (i0, i1, i2, i3, i4, i5, i6, i7)
    got, want, notes = run_spec(SPEC, idx)
    if "KF-C09-1" in KNOWN and O.NONE in SPEC["order"] and kf_c09_1(notes):
        return True     # listed known finding, excluded here; re-found by kf_none_text_order
    return V(got == want)


def kf_none_text_order(i0: int, i1: int, i2: int, i3: int, i4: int, i5: int, i6: int, i7: int) -> bool:
    """
    pre: _pre((i0, i1, i2, i3, i4, i5, i6, i7))
    post: _
    """
    # complementary query of KF-C09-1: only inputs satisfying the finding's predicate
    idx = (i0, i1, i2, i3, i4, i5, i6, i7)
    got, want, notes = run_spec(SPEC, idx)
    if not kf_c09_1(notes):
        return True
    return V(got == want)


# ------------------------------------------------------------------ kernels with truly symbolic strings
class _SymPath:
    """file_path stand-in whose text is a symbolic string (pathlib would realise it)"""

    def __init__(self, s):
        self.s = s

    def __str__(self):
        return self.s


STEM_CHARS = "aoz/_"


def k_file_label(stem: str) -> bool:
    """
    pre: 1 <= len(stem) <= 4
    pre: all(ch in STEM_CHARS for ch in stem)
    post: _
    """
    # G file: the header label of a page stem.zo is the page link [[stem]] (dots other than the
    # extension are outside the bound: prepend_zdir treats any dotted name as having an extension)
    n = mk(dict(DEFAULT, i=0))
    n.file_path = _SymPath(stem + ".zo")
    return V(G.FILE.keyfunc(n) == "[[" + stem + "]]")


def k_none_key(stem: str, line: int) -> bool:
    """
    pre: 1 <= len(stem) <= 3 and all(ch in STEM_CHARS for ch in stem)
    pre: 1 <= line <= 9
    post: _
    """
    # O none for single-digit lines: key orders by (path, line)
    a = mk(dict(DEFAULT, i=0))
    b = mk(dict(DEFAULT, i=1))
    a.file_path = _SymPath(stem + ".zo")
    b.file_path = _SymPath(stem + ".zo")
    a.line_no, b.line_no = line, 5
    ka, kb = O.NONE.keyfunc(a), O.NONE.keyfunc(b)
    return V((ka < kb) == (line < 5) and (ka == kb) == (line == 5))


def k_tag_label(t1: str, t2: str) -> bool:
    """
    pre: 1 <= len(t1) <= 2 and 1 <= len(t2) <= 2
    pre: all(ch in "abAB1_" for ch in t1) and all(ch in "abAB1_" for ch in t2)
    post: _
    """
    # the area label of a note is its sorted tags, each with '#', joined by ' | '
    n = mk(dict(DEFAULT, i=0))
    n.areas = [t1, t2]
    lo, hi = (t1, t2) if t1 <= t2 else (t2, t1)
    return V(G.AREA.keyfunc(n) == "#" + lo + " | #" + hi)
