"""C06 CrossHair harness: incremental reindexing is equivalent to rebuilding the index.

Real code under symbolic execution: COMMAND_HANDLERS[ReindexDBCommand] = reindex_database,
_get_file_hash_map, _get_zo_paths_to_index, _get_file_hash_path, _get_error_file_whitelist,
_write_file_hash_to_disk, strip_zdir; the write-back that follows a run (real _add_zids ->
NewZorgNotesEvent -> add_zids_to_notes_in_file -> _update_zo_file, incl. its hash-map refresh).
One INDUCTIVE STEP from an arbitrary consistent state instead of exploring histories.
Stubs: recording repo (index: page name -> note bodies), walk_zorg_page = a three-line-page reader
(one body per '- ' line), _check_for_modified_notes = no-op (C11), in-memory FS, json shim,
_hash_file = identity (injective), console output silent.  remove_file_by_name's SQL deletions,
PageConverter and the tag caches are NOT claimed.
"""
import os
from pathlib import Path

from crosshair.core import deep_realize
from crosshair.tracers import NoTracing

from vlib import hx
from vlib.hx import V
from zorg.domain.messages import commands
from zorg.domain.models import H1, Block, Note, Page
from zorg.service import handlers as hd
from zorg.service import messagebus as mb
from zorg.shared import common as c
from zorg.storage.sql import _repo as rp
from zorg.storage.sql import _zid_manager as zm

hx.stub_loggers()
hx.put(hd, "json", hx.JsonShim)
hx.put(zm, "json", hx.JsonShim)
hx.put(hd, "_hash_file", lambda p, chunk_size=8192: "H(" + p.read_text() + ")")
hx.put(hd, "_check_for_modified_notes", lambda zdir, page, old: None)
hx.put(hd, "tqdm", lambda it, **k: it)
hx.put(c, "zprint", lambda *a, **k: None)
hx.patch_clock(hd)
KNOWN = set(x for x in os.environ.get("XH_KNOWN", "").split(",") if x)

PIN_F0 = int(os.environ.get("XH_F0", "-1"))
PIN_MODE = int(os.environ.get("XH_MODE", "-1"))
NAMES = ["a.zo", "s/b.zo"]
V1 = "# t\n\n- 240101#01 one\n"
V2 = "# t\n\n- 240101#01 two\n"
VN = "# t\n\n- fresh\n"                 # a note without ZID: indexing it triggers the write-back
VNZ = "# t\n\n- 240510#00 fresh\n"      # ... what the file looks like afterwards
FILE_STATES = [None, V1, V2, VN]
INDEX_STATES = [None, V1, V2, VNZ]      # the index holds the notes of that text
HASH_STATES = [None, V1, V2, VN, VNZ]   # the hash map holds the hash of that text


def bodies(text):
    return [ln[2:] for ln in text.split("\n") if ln.startswith("- ")]


def fake_walk(zdir, path, verbose=False):
    p = path if str(path).startswith("/z/") else zdir / str(path)
    text = p.read_text()
    page = Page(p)
    notes = []
    for i, ln in enumerate(text.split("\n")):
        if ln.startswith("- "):
            b = ln[2:]
            zid = b.split(" ")[0] if "#" in b.split(" ")[0] else None
            notes.append(Note(b, file_path=p, line_no=i + 1, zid=zid, create_date=hx.FixedDate.TODAY))
    page.h0 = H1("", [Block(notes=notes)])
    return page


hx.put(hd, "walk_zorg_page", fake_walk)


class RecRepo:
    """index: page name -> list of note bodies.  add_file runs the real _add_zids first, like SQLRepo."""

    def __init__(self, zdir, index):
        self.zdir, self.index = zdir, index
        self.seen_pages = []
        self.log = []

    def add_file(self, page, **k):
        if page not in self.seen_pages:
            self.seen_pages.append(page)
        rp._add_zids(self.zdir, page)
        name = c.strip_zdir(self.zdir, page.path)
        if name in self.index:
            self.log.append(("DUPLICATE", name))       # a page added twice without removal = duplicated notes
        self.index[name] = [n.body for n in page.notes]
        self.log.append(("add", name))

    def remove_file_by_name(self, name):
        self.log.append(("remove", name))
        if name in self.index:
            del self.index[name]
            return Page(Path(name))
        return None


class RecSession:
    def __init__(self, zdir, index):
        self.zdir = zdir
        self.repo = RecRepo(zdir, index)
        self.commits = 0

    def commit(self):
        self.commits += 1


def setup(fstates, istates, hstates):
    fs = hx.FakeFS()
    index, hashmap = {}, {}
    for name, f, i, h in zip(NAMES, fstates, istates, hstates):
        if FILE_STATES[f] is not None:
            fs.files["/z/" + name] = FILE_STATES[f]
        if INDEX_STATES[i] is not None:
            index[name] = bodies(INDEX_STATES[i])
        if HASH_STATES[h] is not None:
            hashmap[name] = "H(" + HASH_STATES[h] + ")"
    fs.files["/z/.zorg/file_hash.json"] = hx._JsonBlob(dict(hashmap))
    fs.files["/z/.zorg/next_ids.json"] = hx._JsonBlob({})
    return fs, index, hashmap


def invariant(fs, index, hashmap):
    """I : a hash-map entry H(T) means the index holds exactly the notes of T - WHATEVER the file holds now (the file is
         the user's to edit between runs, so an invariant that mentions the file is not preserved by edits: a stale entry
         H(T) next to an index of other notes turns into a missed edit the moment the file goes back to T);
         the entry of a page whose notes still lack ZIDs never survives a step (the write-back refreshes it)
       I2: every indexed page has a hash-map entry (so a run can notice that its file disappeared)"""
    for name, h in hashmap.items():
        text = h[2:-1]
        if text == VN or index.get(name) != bodies(text):
            return False
    for name in index:
        if name not in hashmap:
            return False
    return True


def run_reindex(fs, index, paths):
    zdir = hx.FakePath("/z", fs)
    sess = RecSession(zdir, index)
    cmd = commands.ReindexDBCommand(zdir, paths=[zdir / p for p in paths])
    mb.COMMAND_HANDLERS[type(cmd)](cmd, sess)
    # the message bus then drains the events of the pages the repo has seen
    for page in sess.repo.seen_pages:
        while page.events:
            ev = page.events.pop(0)
            for handler in mb.EVENT_HANDLERS[type(ev)]:
                handler(ev, sess)
    return sess


def files_view(fs):
    return {n: fs.files["/z/" + n] for n in NAMES if ("/z/" + n) in fs.files}


def _valid_states():
    out = []
    for f in range(4):
        for i in range(4):
            for h in range(5):
                fs, index, hashmap = setup((f, 0), (i, 0), (h, 0))
                if invariant(fs, index, hashmap):
                    out.append((f, i, h))
    return out


VALID = _valid_states()     # per-page states satisfying I and I2 (both invariants are per page)
PIN_S0 = os.environ.get("XH_S0", "")


def _s0_ok(s0):
    if not PIN_S0:
        return True
    lo, hi = PIN_S0.split("-")
    return int(lo) <= s0 < int(hi)


def step(s0: int, s1: int, mode: int) -> bool:
    """
    pre: 0 <= s0 < len(VALID) and 0 <= s1 < len(VALID) and 0 <= mode <= 2
    pre: _s0_ok(s0)
    post: _
    """
    # ONE reindex run from an arbitrary state satisfying the invariants (I, I2).
    # mode 0: plain `db reindex`; 1: `db reindex a.zo`; 2: `db reindex s/b.zo`  (explicit paths must exist)
    (f0, i0, h0), (f1, i1, h1) = VALID[s0], VALID[s1]
    fs, index, hashmap = setup((f0, f1), (i0, i1), (h0, h1))
    if mode == 1 and f0 == 0:
        return True
    if mode == 2 and f1 == 0:
        return True
    if "KF-C06-1" in KNOWN and any(FILE_STATES[f] is None and INDEX_STATES[i] is not None
                                   for f, i in ((f0, i0), (f1, i1))):
        return True                        # listed known finding: a page deleted from disk stays indexed
    paths = [[], [NAMES[0]], [NAMES[1]]][mode]
    sess = run_reindex(fs, index, paths)
    after_hash = fs.files["/z/.zorg/file_hash.json"].obj
    files = files_view(fs)
    if any(op[0] == "DUPLICATE" for op in sess.repo.log):
        return V(False)
    if not invariant(fs, index, after_hash):
        return V(False)
    if mode == 0:
        # a plain run: the index answers like a freshly created one, the hash map describes the files
        want_index = {n: bodies(t) for n, t in files.items()}
        want_hash = {n: "H(" + t + ")" for n, t in files.items()}
        return V(index == want_index and after_hash == want_hash)
    p = paths[0]
    return V(index.get(p) == bodies(files[p]) and after_hash.get(p) == "H(" + files[p] + ")")


def kf_deleted_page(i0: int, h0: int, f1: int, i1: int, h1: int) -> bool:
    """
    pre: 1 <= i0 <= 3 and 1 <= h0 <= 4 and 0 <= f1 <= 3 and 0 <= i1 <= 3 and 0 <= h1 <= 4
    post: _
    """
    # complementary query of KF-C06-1: page a.zo is indexed but no longer on disk; plain run
    fs, index, hashmap = setup((0, f1), (i0, i1), (h0, h1))
    if not invariant(fs, index, hashmap):
        return True
    run_reindex(fs, index, [])
    files = files_view(fs)
    return V(index == {n: bodies(t) for n, t in files.items()})


def two_steps(f0: int, f1: int, e0: int, e1: int, mode: int) -> bool:
    """
    pre: 1 <= f0 <= 3 and 1 <= f1 <= 3 and 0 <= e0 <= 3 and 0 <= e1 <= 3 and 1 <= mode <= 2
    post: _
    """
    # a short real history: fresh index of (f0, f1) by a plain run; edit/delete/recreate both pages
    # (e0, e1 = new file states); an explicit-path run on one page; then a plain run.  The end state
    # must equal a fresh index of the final files ("ending with a plain one").
    fs, index, _ = setup((f0, f1), (0, 0), (0, 0))
    run_reindex(fs, index, [])
    for name, e in zip(NAMES, (e0, e1)):
        if FILE_STATES[e] is None:
            fs.files.pop("/z/" + name, None)
        elif e != 3 or not fs.files.get("/z/" + name, "").endswith("fresh\n"):
            fs.files["/z/" + name] = FILE_STATES[e]
    target = NAMES[mode - 1]
    if ("/z/" + target) in fs.files:
        run_reindex(fs, index, [target])
    if "KF-C06-1" in KNOWN and any(("/z/" + n) not in fs.files and n in index for n in NAMES):
        return True
    run_reindex(fs, index, [])
    files = files_view(fs)
    return V(index == {n: bodies(t) for n, t in files.items()}
             and fs.files["/z/.zorg/file_hash.json"].obj == {n: "H(" + t + ")" for n, t in files.items()})
