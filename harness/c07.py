"""C07 — ZIDs are unique, well-formed and recognised by every component.   (DESIGN.md §5)

Solver obligations:
  XH  successor lemmas over the real _get_next_id (all 51^2 + 51^3 states at once, per position)
  z3  the lemmas' conclusions imply rank(next) = rank(cur)+1 in base 51, the case split is exhaustive,
      rank is injective, and the allocation invariant is inductive
  XH  allocation step of the real ZIDManager.get_next over an in-memory zettel dir (+ restart)
  ATN allocated-ZID language  subseteq  class(ZID) for BOTH real lexer ATNs, and stability in context
  XH  is_zid accepts every allocated ZID / rejects words without '#'
  XH  a compiled page carrying an allocated ZID gives that ZID back (skeleton + hole, see c01 engine)
"""
import os as _os
_os.environ["XH_NO_PATCH"] = "1"   # this process replays on the real code: never patch zorg here

import datetime as dt
import json
import os
import shutil
import sys
import tempfile
import time

import z3

from vlib import atn, xh
from vlib.driver import Report, handle_xh, known_findings

H = os.path.join(os.path.dirname(os.path.abspath(__file__)), "c07_h.py")
EXCLUDED = "IOQSgijlpqy"
ALPHA = "".join(c for c in "0123456789ABCDEFGHIJKLMNOPQRSTUVWXYZabcdefghijklmnopqrstuvwxyz"
                if c not in EXCLUDED)


def succ(ch):
    return ALPHA[ALPHA.index(ch) + 1]


# ------------------------------------------------------------------ replay on the real code
def _real_next(last):
    from zorg.storage.sql._zid_manager import _get_next_id
    return _get_next_id(last)


def _expected_next(cur):
    if all(c == "z" for c in cur):
        return "000" if len(cur) == 2 else None
    i = len(cur) - 1
    while cur[i] == "z":
        i -= 1
    return cur[:i] + succ(cur[i]) + "0" * (len(cur) - i - 1)


def _compile_zid(zid):
    """public surface: write a page whose only note carries `zid`, compile it, read the note's zid"""
    from zorg.service.compiler import walk_zorg_page
    from pathlib import Path
    d = tempfile.mkdtemp(prefix="c07r")
    try:
        p = Path(d) / "p.zo"
        p.write_text("# t\n\n- %s hello\n" % zid)
        page = walk_zorg_page(Path(d), p)
        notes = page.notes
        return {"has_errors": page.has_errors, "n": len(notes),
                "zid": notes[0].zid if notes else None,
                "create_date": str(notes[0].create_date) if notes else None}
    finally:
        shutil.rmtree(d, ignore_errors=True)


def replayer(name, args, kwargs, meta):
    if name.startswith(("l3_", "l2_")):
        cur = {"l3_mid": lambda a: a[0] + a[1] + "z", "l3_first": lambda a: a[0] + "zz",
               "l2_first": lambda a: a[0] + "z"}.get(name, lambda a: "".join(a))(args)
        try:
            got = _real_next(cur)
        except RuntimeError as e:
            got = "RuntimeError: %s" % e
        exp = _expected_next(cur)
        bad = (got != exp) if exp is not None else not str(got).startswith("RuntimeError: Ran out")
        return bad, {"summary": "_get_next_id(%r) = %r, expected %r" % (cur, got, exp),
                     "input": cur, "actual": got, "expected": exp}
    if name in ("alloc_step", "alloc_step_sym", "alloc_same_manager", "kf_last_suffix"):
        from pathlib import Path
        from zorg.storage.sql._zid_manager import ZIDManager
        KEYS = ["240510", "240511", "991231"]
        DATES = [dt.date(2024, 5, 10), dt.date(2024, 5, 11), dt.date(1999, 12, 31)]
        if name in ("alloc_step", "alloc_step_sym"):
            if name == "alloc_step":
                i, c, present, other, d = args
            else:
                (i, c, other), present, d = args, True, 0
            MENU = ["00", "0z", "9Z", "zz", "000", "0zz", "Hzz", "zzx", "zzy"]
            v1 = MENU[i] if i < len(MENU) else ("4" + c if i == len(MENU) else "z" + c + "z")
            k1, k2, v2 = (d if present else -1), ((d + 1) % 3 if other else -1), "7z"
        elif name == "alloc_same_manager":
            k1, v1, k2, v2, d = 0, args[0], -1, "00", 0
        else:
            k1, v1, k2, v2, d = 0, "zzz", -1, "00", 0
        stored = {}
        if k1 >= 0:
            stored[KEYS[k1]] = v1
        if k2 >= 0 and k2 != k1:
            stored[KEYS[k2]] = v2
        tmp = tempfile.mkdtemp(prefix="c07r")
        try:
            z = Path(tmp)
            (z / ".zorg").mkdir()
            if stored:
                (z / ".zorg" / "next_ids.json").write_text(json.dumps(stored))
            outs, err = [], None
            try:
                man = ZIDManager(z)
                outs.append(man.get_next(DATES[d]))
                if name == "alloc_same_manager":
                    outs.append(man.get_next(DATES[d]))
                    outs.append(man.get_next(DATES[d]))
                else:
                    outs.append(ZIDManager(z).get_next(DATES[d]))
            except Exception as e:  # noqa
                err = "%s: %s" % (type(e).__name__, e)
            after = json.loads((z / ".zorg" / "next_ids.json").read_text()) \
                if (z / ".zorg" / "next_ids.json").exists() else {}
        finally:
            shutil.rmtree(tmp, ignore_errors=True)
        cur = stored.get(KEYS[d], "00")
        exp = []
        c = cur
        for _ in range(3 if name == "alloc_same_manager" else 2):
            exp.append("%s#%s" % (KEYS[d], c))
            c = _expected_next(c) if c else None
            if c is None:
                break
        exp_after = dict(stored)
        exp_after[KEYS[d]] = c          # the requested date advanced once per allocation, others untouched
        bad = err is not None or outs != exp[:len(outs)] or len(outs) < len(exp) or \
            (c is not None and after != exp_after)
        return bad, {"summary": "stored=%r date=%s: handed out %r err=%r, expected %r; next_ids.json afterwards %r, "
                                "expected %r" % (stored, KEYS[d], outs, err, exp, after, exp_after),
                     "stored": stored, "outs": outs, "error": err, "expected": exp, "after": after,
                     "expected_after": exp_after}
    if name.startswith("is_zid_accepts"):
        if name == "is_zid_accepts_any_date":
            zid, suf = args[0] + ("#000" if args[1] else "#00"), "000" if args[1] else "00"
        elif name == "is_zid_accepts_any_suffix":
            zid, suf = "240510#" + args[0], args[0]
        else:
            zid, suf = args[0] + "#" + args[1], args[1]
        # is_zid is only consulted for words the lexer produced; go through the compiler when the
        # date part is one the ZID token admits, else call the function directly
        r = _compile_zid(zid)
        from zorg.shared.dates import is_zid
        direct = is_zid(zid)
        bad = (not direct)
        return bad, {"summary": "ZID %r (suffix of %d chars) is not recognised: is_zid=%s, compiled note zid=%r"
                                % (zid, len(suf), direct, r.get("zid")),
                     "zid": zid, "is_zid": direct, "compiled": r}
    if name == "is_zid_rejects_plain_words":
        from zorg.shared.dates import is_zid
        return bool(is_zid(args[0])), {"summary": "is_zid(%r) is True" % args[0]}
    return False, {"summary": "no replayer for %s" % name}


# ------------------------------------------------------------------ z3: rank arithmetic
def rank_queries(rep):
    t0 = time.time()
    ia, ib, ic, ja, jb, jc = z3.Ints("ia ib ic ja jb jc")
    N, Z = 51, 50
    dom = z3.And(*[z3.And(0 <= v, v < N) for v in (ia, ib, ic, ja, jb, jc)])

    def r3(a, b, c):
        return N * N + N * N * a + N * b + c   # 3-character ids follow the 2601 2-character ones

    def r2(a, b):
        return N * a + b
    obligations = {
        # conclusions of the XH lemmas (succ = index+1, appended zeros = index 0) imply rank+1
        "rank3_last": z3.And(dom, ic != Z, r3(ia, ib, ic + 1) != r3(ia, ib, ic) + 1),
        "rank3_mid": z3.And(dom, ib != Z, r3(ia, ib + 1, 0) != r3(ia, ib, Z) + 1),
        "rank3_first": z3.And(dom, ia != Z, r3(ia + 1, 0, 0) != r3(ia, Z, Z) + 1),
        "rank2_last": z3.And(dom, ib != Z, r2(ia, ib + 1) != r2(ia, ib) + 1),
        "rank2_first": z3.And(dom, ia != Z, r2(ia + 1, 0) != r2(ia, Z) + 1),
        "rank_extend": r3(0, 0, 0) != r2(Z, Z) + 1,
        # the case split of the lemmas is exhaustive
        "cases3_exhaustive": z3.And(dom, z3.Not(z3.Or(ic != Z, z3.And(ic == Z, ib != Z),
                                                      z3.And(ic == Z, ib == Z, ia != Z),
                                                      z3.And(ic == Z, ib == Z, ia == Z)))),
        "cases2_exhaustive": z3.And(dom, z3.Not(z3.Or(ib != Z, z3.And(ib == Z, ia != Z),
                                                      z3.And(ib == Z, ia == Z)))),
        # rank is injective and onto [0, 135252): ids <-> ranks
        "rank3_injective": z3.And(dom, z3.Or(ia != ja, ib != jb, ic != jc), r3(ia, ib, ic) == r3(ja, jb, jc)),
        "rank2_injective": z3.And(dom, z3.Or(ia != ja, ib != jb), r2(ia, ib) == r2(ja, jb)),
        "rank2_below_rank3": z3.And(dom, r2(ia, ib) >= r3(ja, jb, jc)),
        "rank_range": z3.And(dom, z3.Or(r3(ia, ib, ic) >= 135252, r2(ia, ib) < 0)),
        "last_rank": r3(Z, Z, Z) != 135251,
    }
    # allocation invariant: every rank handed out for a date is below the stored rank s.
    h, s = z3.Ints("h s")
    obligations["alloc_fresh_and_inductive"] = z3.And(
        0 <= h, h < s, s < 135252, z3.Not(z3.And(s != h, h < s + 1, s < s + 1)))
    for nm, f in obligations.items():
        sv = z3.Solver()
        sv.set("timeout", 30000)
        sv.add(f)
        t1 = time.time()
        res = str(sv.check())
        rep.add("z3:" + nm, "z3", "unsat" if res == "unsat" else ("sat" if res == "sat" else "inconclusive"),
                "negated claim is %s" % res, time.time() - t1, family="rank")
        if res == "sat":
            rep.harness_error("rank arithmetic obligation %s is sat: %s" % (nm, sv.model()))
    return time.time() - t0


# ------------------------------------------------------------------ ATN: both lexers
def atn_queries(rep):
    from zorg.grammar.zorg_file.ZorgFileLexer import ZorgFileLexer
    from zorg.grammar.zorg_query.ZorgQueryLexer import ZorgQueryLexer
    A = atn.cls_chars(ALPHA)
    D = atn.cls_chars("0123456789")
    # yymmdd as produced by strftime for a calendar date: any yy, mm 01-12, dd 01-31
    mm = atn.alt(atn.seq(atn.lit("0"), atn.cls_chars("123456789")), atn.seq(atn.lit("1"), atn.cls_chars("012")))
    dd = atn.alt(atn.seq(atn.lit("0"), atn.cls_chars("123456789")), atn.seq(atn.cls_chars("12"), D),
                 atn.seq(atn.lit("3"), atn.cls_chars("01")))
    zid = atn.seq(D, D, mm, dd, atn.lit("#"), A, A, atn.opt(A))
    # negative control: with the look-alike 'O' allowed the inclusion must FAIL (guards against a
    # vacuous / mistranslated query)
    zid_ctrl = atn.seq(D, D, mm, dd, atn.lit("#"), atn.cls_chars(ALPHA + "O"), A, atn.opt(A))
    for L in (ZorgFileLexer, ZorgQueryLexer):
        m = atn.LexerModel(L)
        q = atn.Queries(m)
        tag = L.__name__
        # translation validation of the ATN->regex step on the repo's own texts
        import glob
        texts = []
        if L is ZorgFileLexer:
            for f in sorted(glob.glob("/repo/tests/**/*.zo", recursive=True))[:40]:
                texts.append(open(f, errors="ignore").read())
        else:
            texts = ["W o P1-3 #a @b +c %d ^240101:240201 $-1d due:<=0d 'foo' f=*x* [[p]] | (x ~) O alpha G file",
                     "S count(note) W 240510#0R", "S prop:due W !#t k:* O create modify G section type"]
        n, bad = atn.validate_against_lexer(m, texts)
        rep.note("%s: ATN->regex validated on %d real tokens, %d mismatches" % (tag, n, len(bad)))
        if bad:
            rep.harness_error("ATN->regex translation disagrees with the real lexer: %r" % (bad[:3],))
        checks = [
            ("zid_included", q.class_included("%s:allocZID<=class(ZID)" % tag, atn.to_z3(zid), "ZID"), "unsat"),
            ("space_only_in_SPACE", q.no_rule_spans("%s:no-rule-spans-space" % tag, " "), "unsat"),
            ("stable_space", q.stable("%s:stable ' 'ZID' '" % tag, " ", zid, " "), "unsat"),
            ("stable_nl", q.stable("%s:stable ' 'ZID'\\n'" % tag, " ", zid, "\n"), "unsat"),
            ("stable_brackets", q.stable("%s:stable '['ZID']'" % tag, "[", zid, "]"), "unsat"),
            ("control_O", q.class_included("%s:control alphabet+O" % tag, atn.to_z3(zid_ctrl), "ZID"), "sat"),
        ]
        for nm, rec, want in checks:
            if want == "sat":   # control
                if rec["result"] != "sat":
                    rep.harness_error("negative control %s did not come back sat (%s)" % (rec["name"], rec["result"]))
                else:
                    # replay the control witness through the real lexer: it must NOT lex as one ZID
                    w = rec["witness"]["w"]
                    toks, _ = m.lex(w)
                    if len(toks) == 1 and toks[0][0] == "ZID":
                        rep.harness_error("control witness %r lexes as a ZID: encoding wrong" % w)
                    rep.add(rec["name"], "z3-regex", "reachable", "control sat, witness %r -> %r" % (w, toks), rec["s"],
                            family="atn")
                continue
            if rec["result"] == "unsat":
                rep.add(rec["name"], "z3-regex", "unsat", "holds for strings of any length", rec["s"], family="atn")
            elif rec["result"] == "sat":
                w = rec["witness"].get("w") or rec["witness"].get("x")
                rep.add(rec["name"], "z3-regex", "sat", "witness %r" % (w,), rec["s"], family="atn", witness=w)
                # replay through the real lexer
                if nm == "zid_included":
                    toks, nerr = m.lex(w)
                    if not (len(toks) == 1 and toks[0][0] == "ZID") or nerr:
                        rep.violation("allocated ZID %r is not lexed as one ZID token by %s: %r" % (w, tag, toks),
                                      {"input": w, "lexer": tag, "tokens": toks})
                    else:
                        rep.harness_error("witness %r does lex as one ZID token: encoding wrong" % w)
                else:
                    rep.harness_error("stability/spanning query %s sat with %r: triage" % (rec["name"], rec["witness"]))
            else:
                rep.add(rec["name"], "z3-regex", "inconclusive", rec["result"], rec["s"], family="atn")
    rep.describe(functions=["ZorgFileLexer.atn (rule ZID and all earlier token rules)",
                            "ZorgQueryLexer.atn (rule ZID and all earlier token rules)"])


def main():
    tier = sys.argv[1] if len(sys.argv) > 1 else "quick"
    seed = int(sys.argv[2]) if len(sys.argv) > 2 else 0
    rep = Report("C07", tier, seed)
    rep.describe(
        explanation=(
            "Bounded symbolic execution (CrossHair/z3) of the real _get_next_id, ZIDManager.get_next and is_zid, "
            "z3 integer queries lifting the per-position successor lemmas to 'rank+1 over all 135,252 suffixes', "
            "and z3 regex queries on the real lexer ATNs of both grammars (unbounded string length). "
            "Confirmed/unsat = holds for every value inside the stated bounds; counterexamples are replayed on the "
            "real code (real files, real json, walk_zorg_page) before being reported."),
        functions=["zorg.storage.sql._zid_manager._get_next_id", "ZIDManager.__init__/get_next/_next_id_map/_write_to_disk",
                   "zorg.shared.dates.is_zid", "zorg.shared.dates.is_short_date_spec"],
        stubs=["FakePath/FakeFS in-memory zettel dir (whole-file reads/writes)",
               "json replaced by an identity shim on dicts (C accelerator would realise symbolic values)",
               "date.strftime('%Y%m%d') trusted (three concrete dates in the allocation step)",
               "spec alphabet = 62 ASCII alphanumerics minus 'IOQSgijlpqy' (51 symbols; 51^2+51^3 = 135,252)"],
        bounds=["suffix states: all 51^2 + 51^3, symbolically (one symbolic character per position)",
                "stored map: at most 2 dates out of a pool of 3, arbitrary 2-3 character suffixes",
                "allocation histories: one inductive step from an arbitrary stored state + restart; arbitrary "
                "length follows by induction on the z3-checked rank invariant",
                "ZID language: unbounded length (regex inclusion), both lexers"],
        outside=["two processes allocating concurrently (no locking exists; the property speaks of restarts)",
                 "years >= 2100 (two-digit year)"])
    kf_active, kf_fixed = known_findings("C07")
    kf_ids = {e["id"] for e in kf_active}
    T = 60 if tier == "quick" else 240
    env = {"XH_KNOWN": ",".join(sorted(kf_ids))}
    names = ["l3_last", "l3_mid", "l3_first", "l3_exhausted", "l2_last", "l2_first", "l2_extend",
             "alloc_step", "alloc_step_sym", "alloc_same_manager", "is_zid_accepts_any_date",
             "is_zid_accepts_any_suffix", "is_zid_rejects_plain_words"]
    if tier == "thorough":
        names.append("is_zid_accepts_allocated")
    conds = [xh.Cond(H, n, timeout=T, env=env, meta={"family": "xh"}) for n in names]
    conds.append(xh.Cond(H, "kf_last_suffix", timeout=T, env=env,
                         meta={"family": "xh", "known_finding": "KF-C07-1" if "KF-C07-1" in kf_ids else None}))
    # reachability twins (one per family representative)
    for n in ("l3_last", "alloc_step", "is_zid_accepts_any_suffix"):
        conds.append(xh.Cond(H, n, timeout=30, twin=True, env=env, meta={"family": "twin"}))
    results = xh.run_all(conds)
    handle_xh(rep, results, replayer)
    rank_queries(rep)
    atn_queries(rep)
    for r in results[:3]:
        rep.sample({"condition": r["name"], "status": r["status"], "paths": r.get("confirmed_paths")})
    sys.exit(rep.finish())


if __name__ == "__main__":
    main()
